/* LD_PRELOAD fault injector for C19 (E4).
 *
 * FQV_FAULT_PATH  substring identifying the target path
 * FQV_FAULT_PLAN  comma-separated deviations  open:<k>:<ERRNO>  |  write:<k>:<ERRNO>  |  write:<k>:SHORT1|SHORTHALF|SHORTLAST
 *                 (a '+' after the class makes it persistent: the k-th call and every later one of that kind)
 *                 (k = 1-based index of the call on the target path / on a descriptor of the target)
 * FQV_FAULT_LOG   file receiving one line per intercepted call on the target
 */
#define _GNU_SOURCE
#include <dlfcn.h>
#include <errno.h>
#include <fcntl.h>
#include <stdarg.h>
#include <stdio.h>
#include <stdlib.h>
#include <string.h>
#include <sys/types.h>
#include <unistd.h>

struct dev { int is_write; int k; int err; int shortmode; int persistent; };
static struct dev plan[16];
static int nplan = -1;
static const char *target;
static int logfd = -1;
static int open_count, write_count;
static int tfd[64];
static int ntfd;

static int (*real_open)(const char *, int, ...);
static int (*real_open64)(const char *, int, ...);
static int (*real_openat)(int, const char *, int, ...);
static int (*real_openat64)(int, const char *, int, ...);
static ssize_t (*real_write)(int, const void *, size_t);
static int (*real_close)(int);

static int errno_of(const char *s) {
    if (!strcmp(s, "EACCES")) return EACCES;
    if (!strcmp(s, "EROFS")) return EROFS;
    if (!strcmp(s, "ENOENT")) return ENOENT;
    if (!strcmp(s, "EISDIR")) return EISDIR;
    if (!strcmp(s, "ENOSPC")) return ENOSPC;
    if (!strcmp(s, "EMFILE")) return EMFILE;
    if (!strcmp(s, "EIO")) return EIO;
    if (!strcmp(s, "EDQUOT")) return EDQUOT;
    if (!strcmp(s, "EINTR")) return EINTR;
    if (!strcmp(s, "ETXTBSY")) return ETXTBSY;
    if (!strcmp(s, "EBUSY")) return EBUSY;
    if (!strcmp(s, "EAGAIN")) return EAGAIN;
    if (!strcmp(s, "ETIMEDOUT")) return ETIMEDOUT;
    if (!strcmp(s, "EFBIG")) return EFBIG;
    if (!strcmp(s, "EPIPE")) return EPIPE;
    if (!strcmp(s, "ECONNRESET")) return ECONNRESET;
    return 0;
}

static void init(void) {
    if (nplan >= 0) return;
    nplan = 0;
    real_open = dlsym(RTLD_NEXT, "open");
    real_open64 = dlsym(RTLD_NEXT, "open64");
    real_openat = dlsym(RTLD_NEXT, "openat");
    real_openat64 = dlsym(RTLD_NEXT, "openat64");
    real_write = dlsym(RTLD_NEXT, "write");
    real_close = dlsym(RTLD_NEXT, "close");
    target = getenv("FQV_FAULT_PATH");
    const char *lg = getenv("FQV_FAULT_LOG");
    if (lg && real_open) logfd = real_open(lg, O_WRONLY | O_CREAT | O_APPEND | O_CLOEXEC, 0644);
    const char *p = getenv("FQV_FAULT_PLAN");
    if (p) {
        char buf[512];
        strncpy(buf, p, sizeof buf - 1);
        buf[sizeof buf - 1] = 0;
        char *save = NULL;
        for (char *tok = strtok_r(buf, ",", &save); tok && nplan < 16; tok = strtok_r(NULL, ",", &save)) {
            char kind[16], what[32];
            int k;
            if (sscanf(tok, "%15[a-z]:%d:%31s", kind, &k, what) == 3) {
                struct dev d = {0, k, 0, 0, 0};
                d.is_write = !strcmp(kind, "write");
                /* a trailing '+' makes the deviation persistent: the k-th call and every later one of that kind */
                size_t wl = strlen(what);
                if (wl > 1 && what[wl - 1] == '+') { d.persistent = 1; what[wl - 1] = 0; }
                if (!strcmp(what, "SHORT1")) d.shortmode = 1;
                else if (!strcmp(what, "SHORTHALF")) d.shortmode = 2;
                else if (!strcmp(what, "SHORTLAST")) d.shortmode = 3;
                else d.err = errno_of(what);
                plan[nplan++] = d;
            }
        }
    }
}

static void lg(const char *fmt, ...) {
    if (logfd < 0) return;
    char b[256];
    va_list ap;
    va_start(ap, fmt);
    int n = vsnprintf(b, sizeof b, fmt, ap);
    va_end(ap);
    if (n > 0) real_write(logfd, b, (size_t)n);
}

static int is_target(const char *path) { return target && path && strstr(path, target) != NULL; }

static struct dev *find(int is_write, int k) {
    for (int i = 0; i < nplan; i++)
        if (plan[i].is_write == is_write && (plan[i].k == k || (plan[i].persistent && k >= plan[i].k))) return &plan[i];
    return NULL;
}

static int is_tfd(int fd) {
    for (int i = 0; i < ntfd; i++)
        if (tfd[i] == fd) return 1;
    return 0;
}

/* returns -2 to continue with the real call, else the value to return (errno set) */
static int pre_open(const char *path) {
    init();
    if (!is_target(path)) return -2;
    open_count++;
    struct dev *d = find(0, open_count);
    if (d && d->err) {
        lg("open %d INJECT %d\n", open_count, d->err);
        errno = d->err;
        return -1;
    }
    return -3; /* target, no fault */
}

static void post_open(int mark, int fd) {
    if (mark == -3) {
        int e = errno;
        lg("open %d ret %d errno %d\n", open_count, fd, fd < 0 ? e : 0);
        if (fd >= 0 && ntfd < 64) tfd[ntfd++] = fd;
        errno = e;
    }
}

#define MODE_ARG                                 \
    mode_t mode = 0;                             \
    if (flags & (O_CREAT | O_TMPFILE)) {         \
        va_list ap;                              \
        va_start(ap, flags);                     \
        mode = (mode_t)va_arg(ap, int);          \
        va_end(ap);                              \
    }

int open(const char *path, int flags, ...) {
    MODE_ARG
    int m = pre_open(path);
    if (m == -1) return -1;
    int fd = real_open(path, flags, mode);
    post_open(m, fd);
    return fd;
}

int open64(const char *path, int flags, ...) {
    MODE_ARG
    int m = pre_open(path);
    if (m == -1) return -1;
    int fd = real_open64 ? real_open64(path, flags, mode) : real_open(path, flags | O_LARGEFILE, mode);
    post_open(m, fd);
    return fd;
}

int openat(int dirfd, const char *path, int flags, ...) {
    MODE_ARG
    int m = pre_open(path);
    if (m == -1) return -1;
    int fd = real_openat(dirfd, path, flags, mode);
    post_open(m, fd);
    return fd;
}

int openat64(int dirfd, const char *path, int flags, ...) {
    MODE_ARG
    int m = pre_open(path);
    if (m == -1) return -1;
    int fd = real_openat64 ? real_openat64(dirfd, path, flags, mode) : real_openat(dirfd, path, flags | O_LARGEFILE, mode);
    post_open(m, fd);
    return fd;
}

ssize_t write(int fd, const void *buf, size_t n) {
    init();
    if (!is_tfd(fd)) return real_write(fd, buf, n);
    write_count++;
    struct dev *d = find(1, write_count);
    if (d && d->err) {
        lg("write %d len %zu INJECT %d\n", write_count, n, d->err);
        errno = d->err;
        return -1;
    }
    size_t m = n;
    if (d && d->shortmode && n > 1) {
        m = d->shortmode == 1 ? 1 : d->shortmode == 2 ? n / 2 : n - 1;
        if (m == 0) m = 1;
    }
    ssize_t r = real_write(fd, buf, m);
    int e = errno;
    lg("write %d len %zu %s ret %zd errno %d\n", write_count, n, (d && d->shortmode && m != n) ? "SHORT" : "full", r, r < 0 ? e : 0);
    errno = e;
    return r;
}

int close(int fd) {
    init();
    if (is_tfd(fd)) {
        for (int i = 0; i < ntfd; i++)
            if (tfd[i] == fd) { tfd[i] = tfd[--ntfd]; break; }
        lg("close\n");
    }
    return real_close(fd);
}
