//! E3-fine: the controlled scheduler of harness/src/explore/sched.rs, driven by function-entry events
//! (`mcount`) instead of named hook points. Threads are real OS threads; exactly one runs at a time and
//! hands control back at *candidate points*: the first `k` entries of every (function, call site) pair in
//! each operation of each thread. All interleavings with at most `bound` preemptions at candidate points
//! are enumerated by depth-first search over choice prefixes; a schedule is a replayable list of choices.
//!
//! Unlike the named points, function entries also occur inside critical sections of code the subject may
//! have gained (a std Mutex held across a call). If the scheduled thread makes no progress for `stall_ms`
//! it is presumed blocked on something a parked thread holds: the execution is *released* (every thread
//! runs freely to the end), counted as degraded, and still judged — it is a real execution of the program.

use std::sync::atomic::{AtomicU64, Ordering};
use std::sync::{Arc, Condvar, Mutex, MutexGuard};
use std::time::Duration;

#[derive(Clone, Debug, PartialEq)]
pub struct Decision {
    pub choice: usize,
    pub enabled: usize,
    pub running_enabled: bool,
    pub thread_chosen: usize,
    /// stable id of the candidate point (0 = start, 1 = thread exit)
    pub site: u64,
}

struct State {
    n: usize,
    current: Option<usize>,
    done: Vec<bool>,
    started: Vec<bool>,
    prefix: Vec<usize>,
    decisions: Vec<Decision>,
    error: Option<String>,
    progress: u64,
    free_run: bool,
}

pub struct Sched {
    st: Mutex<State>,
    cv: Condvar,
    stall_ms: u64,
    /// harness-owned racy counter (vacuity guard): read at one candidate point, written back +1 at the next
    pub canary: AtomicU64,
}

impl Sched {
    pub fn new(n: usize, prefix: Vec<usize>, stall_ms: u64) -> Arc<Sched> {
        Arc::new(Sched {
            st: Mutex::new(State { n, current: None, done: vec![false; n], started: vec![false; n], prefix, decisions: vec![], error: None, progress: 0, free_run: false }),
            cv: Condvar::new(),
            stall_ms,
            canary: AtomicU64::new(0),
        })
    }

    fn enabled(st: &State, running: Option<usize>) -> Vec<usize> {
        let mut v = vec![];
        if let Some(r) = running {
            if !st.done[r] {
                v.push(r);
            }
        }
        for t in 0..st.n {
            if !st.done[t] && Some(t) != running {
                v.push(t);
            }
        }
        v
    }

    fn decide(st: &mut State, running: Option<usize>, site: u64) {
        let en = Self::enabled(st, running);
        if en.is_empty() {
            st.current = None;
            return;
        }
        let i = st.decisions.len();
        let choice = if i < st.prefix.len() { st.prefix[i] } else { 0 };
        if choice >= en.len() {
            st.error = Some(format!("schedule prefix diverged: decision {} wants choice {} of {} enabled threads", i, choice, en.len()));
            st.current = Some(en[0]);
            st.decisions.push(Decision { choice: 0, enabled: en.len(), running_enabled: false, thread_chosen: en[0], site });
            return;
        }
        let running_enabled = running.map_or(false, |r| !st.done[r]);
        st.decisions.push(Decision { choice, enabled: en.len(), running_enabled, thread_chosen: en[choice], site });
        st.current = Some(en[choice]);
    }

    /// parks the calling thread until it is scheduled (or the execution has been released)
    fn wait_turn<'a>(&'a self, mut st: MutexGuard<'a, State>, tid: usize) -> MutexGuard<'a, State> {
        while st.current != Some(tid) && !st.free_run {
            let before = st.progress;
            let (g, to) = self.cv.wait_timeout(st, Duration::from_millis(self.stall_ms)).unwrap();
            st = g;
            if to.timed_out() && st.progress == before && st.current != Some(tid) && !st.free_run && st.current.is_some() {
                st.free_run = true;
                self.cv.notify_all();
            }
        }
        st
    }

    pub fn start(&self, tid: usize) {
        let mut st = self.st.lock().unwrap();
        st.started[tid] = true;
        if st.started.iter().all(|&s| s) && st.current.is_none() && st.decisions.is_empty() {
            Self::decide(&mut st, None, 0);
            self.cv.notify_all();
        }
        // the start barrier has no stall detection: nobody runs before everybody has arrived
        while st.current.is_none() && !st.free_run {
            st = self.cv.wait(st).unwrap();
        }
        let _st = self.wait_turn(st, tid);
    }

    /// a candidate point reached by the running thread
    pub fn point(&self, tid: usize, site: u64) {
        let mut st = self.st.lock().unwrap();
        if st.free_run {
            return;
        }
        st.progress += 1;
        if st.current != Some(tid) {
            st.error = Some(format!("thread {} reached a point while thread {:?} was scheduled", tid, st.current));
            return;
        }
        Self::decide(&mut st, Some(tid), site);
        if st.current != Some(tid) {
            self.cv.notify_all();
            let _st = self.wait_turn(st, tid);
        }
    }

    pub fn finish(&self, tid: usize) {
        let mut st = self.st.lock().unwrap();
        st.done[tid] = true;
        st.progress += 1;
        if !st.free_run {
            Self::decide(&mut st, Some(tid), 1);
        }
        self.cv.notify_all();
    }

    pub fn take(&self) -> (Vec<Decision>, Option<String>, bool) {
        let st = self.st.lock().unwrap();
        (st.decisions.clone(), st.error.clone(), st.free_run)
    }

    pub fn canary_step(&self, stash: &mut Option<u64>) {
        match stash.take() {
            Some(v) => self.canary.store(v + 1, Ordering::SeqCst),
            None => *stash = Some(self.canary.load(Ordering::SeqCst)),
        }
    }
}
