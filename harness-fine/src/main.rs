//! fqv-fine: schedule exploration of fast_qr at function-entry granularity (C14 sub-exploration (d)).
//! Every execution runs in a forked child of the (single-threaded) explorer, so process-wide state of the subject
//! never carries over from one schedule to the next.
//!
//!   fqv-fine explore --tier quick|thorough      run all programs (children in parallel), print one JSON report
//!   fqv-fine program <idx> <k> <bound> <shard> <nshards> <stall_ms>   explore one shard of one program (child)
//!   fqv-fine pristine <op-json>                 one operation in a fresh process, print its digest
//!   fqv-fine replay <case-json-file>            re-run one recorded schedule twice
//!   fqv-fine selftest                           instrumentation is live; a harness-owned racy subject is caught

#[path = "../../harness/src/util.rs"]
mod util;
#[path = "../../harness/src/subject.rs"]
mod subject;
mod sched;

use fast_qr::convert::svg::SvgBuilder;
use fast_qr::convert::{Builder, Shape};
use fast_qr::QRBuilder;
use sched::{Decision, Sched};
use serde_json::{json, Value};
use std::cell::{Cell, RefCell};
use std::collections::{BTreeMap, HashMap, HashSet};
use std::sync::Arc;
use subject::{Opts, Outcome};

// ---------------------------------------------------------------- operations and programs

#[derive(Clone, Debug, PartialEq, Eq, Hash, PartialOrd, Ord)]
enum Render {
    None,
    Svg,
    Term,
}

#[derive(Clone, Debug, PartialEq, Eq, Hash, PartialOrd, Ord)]
struct Op {
    input: Vec<u8>,
    opts: Opts,
    render: Render,
    /// build through the builder shared by all threads of the program instead of a fresh one
    shared: bool,
}

impl Op {
    fn to_json(&self) -> Value {
        json!({"input_hex": util::hex(&self.input), "input_show": util::show(&self.input), "opts": self.opts.to_json(), "render": match self.render { Render::None => "none", Render::Svg => "svg", Render::Term => "term" }, "shared_builder": self.shared})
    }
    fn from_json(v: &Value) -> Option<Op> {
        Some(Op {
            input: util::unhex(v.get("input_hex")?.as_str()?)?,
            opts: Opts::from_json(v.get("opts")?)?,
            render: match v.get("render")?.as_str()? {
                "none" => Render::None,
                "svg" => Render::Svg,
                "term" => Render::Term,
                _ => return None,
            },
            shared: v.get("shared_builder")?.as_bool()?,
        })
    }
}

struct Program {
    name: &'static str,
    threads: Vec<Vec<Op>>,
}

fn op(input: &[u8], opts: Opts, render: Render) -> Op {
    Op { input: input.to_vec(), opts, render, shared: false }
}

fn programs() -> Vec<Program> {
    let a = op(b"HELLO WORLD", Opts::default(), Render::None);
    let b = op(b"a longer byte payload that needs version three..", Opts { ecl: Some(1), ..Opts::default() }, Render::None);
    let c = op(b"31415926535897932384626433", Opts { ecl: Some(0), ..Opts::default() }, Render::None);
    let x2 = op(b"HELLO WORLD 12345 ABCDEFG", Opts::default(), Render::None);
    let sh = Op { shared: true, ..a.clone() };
    let a_term = op(b"HELLO WORLD", Opts::default(), Render::Term);
    let b_term = op(b"a longer byte payload that needs version three..", Opts { ecl: Some(1), ..Opts::default() }, Render::Term);
    let a_svg = op(b"HELLO WORLD", Opts::default(), Render::Svg);
    let b_svg = op(b"a longer byte payload that needs version three..", Opts { ecl: Some(1), ..Opts::default() }, Render::Svg);
    vec![
        Program { name: "F1 two threads, different inputs (v1, v3)", threads: vec![vec![a.clone()], vec![b.clone()]] },
        Program { name: "F2 two threads, same input", threads: vec![vec![a.clone()], vec![a.clone()]] },
        Program { name: "F3 two threads sharing one &QRBuilder", threads: vec![vec![sh.clone()], vec![sh.clone()]] },
        Program { name: "F4 three threads (A, B, A)", threads: vec![vec![a.clone()], vec![b.clone()], vec![a.clone()]] },
        Program { name: "F5 two builds per thread, opposite order", threads: vec![vec![a.clone(), b.clone()], vec![b.clone(), a.clone()]] },
        Program { name: "F6 terminal renders of two sizes, opposite order", threads: vec![vec![a_term.clone(), b_term.clone()], vec![b_term.clone(), a_term.clone()]] },
        Program { name: "F7 SVG renders of two sizes, opposite order", threads: vec![vec![a_svg.clone(), b_svg.clone()], vec![b_svg.clone(), a_svg.clone()]] },
        Program { name: "F9 large then smaller symbol with remainder bits on one thread, a small one on the other", threads: vec![vec![b.clone(), x2.clone()], vec![a.clone()]] },
        Program { name: "F8 three threads (A then C, B, C then A), same version different content", threads: vec![vec![a.clone(), c.clone()], vec![b.clone()], vec![c.clone(), a.clone()]] },
    ]
}

fn shared_builder_of(p: &Program) -> Option<Arc<SharedBuilder>> {
    p.threads.iter().flatten().find(|o| o.shared).map(|o| {
        let mut b = QRBuilder::new(o.input.clone());
        o.opts.apply(&mut b);
        Arc::new(SharedBuilder(b))
    })
}

/// `QRBuilder` is Send + Sync today; asserted unconditionally so that this still compiles if a change gives the
/// builder interior mutability (under the controlled scheduler one thread runs at a time, every hand-over goes
/// through a mutex)
struct SharedBuilder(QRBuilder);
unsafe impl Sync for SharedBuilder {}
unsafe impl Send for SharedBuilder {}

fn observe(o: &Op, shared: Option<&SharedBuilder>) -> u64 {
    let out = if o.shared {
        match subject::guarded(|| shared.expect("shared builder").0.build()) {
            Ok(r) => subject::classify(r),
            Err(m) => Outcome::Panic(m),
        }
    } else {
        subject::build(&o.input, &o.opts)
    };
    let base = subject::outcome_digest(&out);
    match (&out, &o.render) {
        (Outcome::Ok(q), Render::Svg) => match subject::guarded(|| {
            let mut b = SvgBuilder::default();
            b.shape(Shape::RoundedSquare).margin(2);
            b.to_str(q).into_bytes()
        }) {
            Ok(bytes) => util::Fnv::new().add_u64(base).add(&bytes).get(),
            Err(_) => 4,
        },
        (Outcome::Ok(q), Render::Term) => match subject::guarded(|| q.to_str().into_bytes()) {
            Ok(bytes) => util::Fnv::new().add_u64(base).add(&bytes).get(),
            Err(_) => 4,
        },
        _ => base,
    }
}

// ---------------------------------------------------------------- function-entry receiver

const TABLE_BITS: usize = 15;

struct ThreadCtx {
    tid: usize,
    sched: Arc<Sched>,
    k: u32,
    table: RefCell<Vec<(u64, u32)>>,
    events: Cell<u64>,
    candidates: Cell<u64>,
    stash: RefCell<Option<u64>>,
    anchor: usize,
}

impl ThreadCtx {
    fn reset(&self) {
        for e in self.table.borrow_mut().iter_mut() {
            *e = (0, 0);
        }
    }
}

fn on_entry(data: *const (), own: usize, parent: usize) {
    let tc = unsafe { &*(data as *const ThreadCtx) };
    tc.events.set(tc.events.get() + 1);
    let key = ((own.wrapping_sub(tc.anchor) as u64) << 32) ^ (parent.wrapping_sub(tc.anchor) as u64 & 0xffff_ffff) | 1 << 63;
    let count = {
        let mut t = tc.table.borrow_mut();
        let mask = (1usize << TABLE_BITS) - 1;
        let mut i = (key.wrapping_mul(0x9E37_79B9_7F4A_7C15) >> (64 - TABLE_BITS)) as usize;
        loop {
            if t[i].0 == key {
                t[i].1 = t[i].1.saturating_add(1);
                break t[i].1;
            }
            if t[i].0 == 0 {
                t[i] = (key, 1);
                break 1;
            }
            i = (i + 1) & mask;
        }
    };
    if count > tc.k {
        return;
    }
    tc.candidates.set(tc.candidates.get() + 1);
    tc.sched.point(tc.tid, key & !(1 << 63));
    tc.sched.canary_step(&mut tc.stash.borrow_mut());
}

fn anchor() -> usize {
    anchor as usize
}

// ---------------------------------------------------------------- one execution

struct Execution {
    results: Vec<Option<Vec<u64>>>,
    decisions: Vec<Decision>,
    error: Option<String>,
    released: bool,
    canary: u64,
    events: u64,
    candidates: u64,
}

fn run_once_here(p: &Program, prefix: &[usize], k: u32, stall_ms: u64) -> Execution {
    let n = p.threads.len();
    let sched = Sched::new(n, prefix.to_vec(), stall_ms);
    let shared = shared_builder_of(p);
    let mut handles = vec![];
    for (tid, ops) in p.threads.iter().enumerate() {
        let sched = sched.clone();
        let ops = ops.clone();
        let shared = shared.clone();
        let h = std::thread::Builder::new()
            .name(format!("fqv-fine-{}", tid))
            .stack_size(64 << 20)
            .spawn(move || {
                let tc = ThreadCtx { tid, sched: sched.clone(), k, table: RefCell::new(vec![(0, 0); 1 << TABLE_BITS]), events: Cell::new(0), candidates: Cell::new(0), stash: RefCell::new(None), anchor: anchor() };
                let rec = fine_hook::Receiver { f: on_entry, data: &tc as *const ThreadCtx as *const () };
                sched.start(tid);
                let mut out = vec![];
                let r = std::panic::catch_unwind(std::panic::AssertUnwindSafe(|| {
                    for o in &ops {
                        tc.reset();
                        fine_hook::install(&rec);
                        let d = observe(o, shared.as_deref());
                        fine_hook::uninstall();
                        out.push(d);
                    }
                }));
                fine_hook::uninstall();
                sched.finish(tid);
                (r.ok().map(|_| out), tc.events.get(), tc.candidates.get())
            })
            .expect("spawn");
        handles.push(h);
    }
    let mut results = vec![];
    let (mut events, mut candidates) = (0, 0);
    for h in handles {
        match h.join() {
            Ok((r, e, c)) => {
                results.push(r);
                events += e;
                candidates += c;
            }
            Err(_) => results.push(None),
        }
    }
    let (decisions, error, released) = sched.take();
    Execution { results, decisions, error, released, canary: sched.canary.load(std::sync::atomic::Ordering::SeqCst), events, candidates }
}

extern "C" {
    fn fork() -> i32;
    fn pipe(fds: *mut i32) -> i32;
    fn waitpid(pid: i32, status: *mut i32, options: i32) -> i32;
    fn _exit(code: i32) -> !;
    fn close(fd: i32) -> i32;
}

/// One execution in a process of its own (fork of the single-threaded explorer, which has never run the subject):
/// whatever the subject keeps in statics — a lazily initialised table, a process-wide cache, a counter — starts
/// from the same state in every execution, so the sequence of candidate points is a function of the schedule alone
/// and a correct cache does not make prefixes diverge. The child writes its execution record to a pipe.
fn run_once(p: &Program, prefix: &[usize], k: u32, stall_ms: u64) -> Execution {
    use std::io::{Read, Write};
    use std::os::unix::io::FromRawFd;
    let mut fds = [0i32; 2];
    if unsafe { pipe(fds.as_mut_ptr()) } != 0 {
        return run_once_here(p, prefix, k, stall_ms);
    }
    let pid = unsafe { fork() };
    if pid < 0 {
        unsafe {
            close(fds[0]);
            close(fds[1]);
        }
        return run_once_here(p, prefix, k, stall_ms);
    }
    if pid == 0 {
        unsafe { close(fds[0]) };
        let x = run_once_here(p, prefix, k, stall_ms);
        let mut out = String::with_capacity(64 + 24 * x.decisions.len());
        out.push_str(&format!("H {} {} {} {} {}\n", x.released as u8, x.canary, x.events, x.candidates, x.error.clone().unwrap_or_default().replace('\n', " ")));
        for r in &x.results {
            match r {
                None => out.push_str("R -\n"),
                Some(v) => out.push_str(&format!("R {}\n", v.iter().map(|d| d.to_string()).collect::<Vec<_>>().join(" "))),
            }
        }
        for d in &x.decisions {
            out.push_str(&format!("D {} {} {} {} {}\n", d.choice, d.enabled, d.running_enabled as u8, d.thread_chosen, d.site));
        }
        let mut f = unsafe { std::fs::File::from_raw_fd(fds[1]) };
        let _ = f.write_all(out.as_bytes());
        let _ = f.flush();
        drop(f);
        unsafe { _exit(0) }
    }
    unsafe { close(fds[1]) };
    let mut f = unsafe { std::fs::File::from_raw_fd(fds[0]) };
    let mut txt = String::new();
    let _ = f.read_to_string(&mut txt);
    drop(f);
    let mut status = 0i32;
    unsafe { waitpid(pid, &mut status, 0) };
    let mut x = Execution { results: vec![], decisions: vec![], error: None, released: false, canary: 0, events: 0, candidates: 0 };
    let mut header = false;
    for line in txt.lines() {
        let mut it = line.splitn(2, ' ');
        match (it.next(), it.next()) {
            (Some("H"), Some(rest)) => {
                let parts: Vec<&str> = rest.splitn(5, ' ').collect();
                if parts.len() >= 4 {
                    header = true;
                    x.released = parts[0] == "1";
                    x.canary = parts[1].parse().unwrap_or(0);
                    x.events = parts[2].parse().unwrap_or(0);
                    x.candidates = parts[3].parse().unwrap_or(0);
                    if parts.len() == 5 && !parts[4].is_empty() {
                        x.error = Some(parts[4].to_string());
                    }
                }
            }
            (Some("R"), Some("-")) => x.results.push(None),
            (Some("R"), Some(rest)) => x.results.push(Some(rest.split(' ').filter_map(|t| t.parse().ok()).collect())),
            (Some("R"), None) => x.results.push(Some(vec![])),
            (Some("D"), Some(rest)) => {
                let v: Vec<u64> = rest.split(' ').filter_map(|t| t.parse().ok()).collect();
                if v.len() == 5 {
                    x.decisions.push(Decision { choice: v[0] as usize, enabled: v[1] as usize, running_enabled: v[2] == 1, thread_chosen: v[3] as usize, site: v[4] });
                }
            }
            _ => {}
        }
    }
    if !header || x.results.len() != p.threads.len() {
        // the child died (abort, stack overflow) or was cut short: every thread counts as not having returned
        x.results = vec![None; p.threads.len()];
        x.error = Some(format!("execution process died (wait status {})", status));
    }
    x
}

// ---------------------------------------------------------------- pristine expectations

fn pristine(o: &Op) -> Result<u64, String> {
    let exe = std::env::current_exe().map_err(|e| e.to_string())?;
    let out = std::process::Command::new(exe).arg("pristine").arg(o.to_json().to_string()).output().map_err(|e| e.to_string())?;
    if !out.status.success() {
        return Err(format!("pristine child exited with {:?}", out.status));
    }
    String::from_utf8_lossy(&out.stdout).trim().parse().map_err(|_| "pristine child printed no digest".to_string())
}

fn expectations(p: &Program) -> Result<HashMap<Op, u64>, String> {
    let mut m = HashMap::new();
    for o in p.threads.iter().flatten() {
        if !m.contains_key(o) {
            m.insert(o.clone(), pristine(o)?);
        }
    }
    Ok(m)
}

fn judge(p: &Program, x: &Execution, expect: &HashMap<Op, u64>) -> Vec<(String, String)> {
    let mut out = vec![];
    for (t, ops) in p.threads.iter().enumerate() {
        match &x.results[t] {
            None => out.push(("C14/thread-panic-under-schedule".to_string(), format!("{}: thread {} panicked", p.name, t))),
            Some(ds) => {
                for (i, o) in ops.iter().enumerate() {
                    if expect.get(o) != ds.get(i) {
                        out.push(("C14/schedule-dependent-result".to_string(), format!("{}: thread {} operation {} ({}) returned a result that differs from its result in a fresh single-threaded process", p.name, t, i, match o.render { Render::None => "build", Render::Svg => "build + SVG render", Render::Term => "build + terminal render" })));
                    }
                }
            }
        }
    }
    out
}

// ---------------------------------------------------------------- exploration of one program (one shard)

fn explore_program(idx: usize, k: u32, bound: usize, shard: usize, nshards: usize, stall_ms: u64) -> Value {
    let progs = programs();
    let p = &progs[idx];
    let expect = match expectations(p) {
        Ok(e) => e,
        Err(e) => return json!({"program": p.name, "machinery_error": e}),
    };
    let mut stack: Vec<Vec<usize>> = vec![vec![]];
    let mut schedules = 0u64;
    let mut released = 0u64;
    let mut max_decisions = 0usize;
    let mut max_events = 0u64;
    let mut max_candidates = 0u64;
    let mut canaries: HashSet<u64> = HashSet::new();
    let mut outcomes: HashSet<Vec<Option<Vec<u64>>>> = HashSet::new();
    let mut sites: HashSet<u64> = HashSet::new();
    let mut violations: BTreeMap<String, (String, Value, u64)> = BTreeMap::new();
    let mut machinery: Vec<String> = vec![];
    let mut last: Option<Vec<usize>> = None;
    let mut cut: Option<String> = None;
    while let Some(prefix) = stack.pop() {
        // a counterexample ends the shard (the first one found has the earliest deviation); an execution that had
        // to be released costs a stall timeout, so a subject that blocks at many points is cut after 12 of them
        if !violations.is_empty() {
            cut = Some("stopped at the first violation".to_string());
            break;
        }
        if released >= 12 {
            cut = Some("cut after 12 released executions (the subject blocks inside critical sections)".to_string());
            break;
        }
        let x = run_once(p, &prefix, k, stall_ms);
        // the base execution is run by every shard (it defines the decision list) but counted by shard 0 only
        let counted = !(prefix.is_empty() && shard != 0);
        if counted {
            schedules += 1;
            if x.released {
                released += 1;
            }
            canaries.insert(x.canary);
            outcomes.insert(x.results.clone());
        }
        max_decisions = max_decisions.max(x.decisions.len());
        max_events = max_events.max(x.events);
        max_candidates = max_candidates.max(x.candidates);
        for d in &x.decisions {
            sites.insert(d.site);
        }
        let choices: Vec<usize> = x.decisions.iter().map(|d| d.choice).collect();
        for (key, what) in judge(p, &x, &expect) {
            let case = json!({"kind": "schedule-fine", "program": idx, "program_name": p.name, "k": k, "choices": compress(&choices), "released": x.released});
            violations.entry(key).and_modify(|e| e.2 += 1).or_insert((what, case, 1));
        }
        if let Some(e) = &x.error {
            // a diverging prefix means the sequence of candidate points depends on something the schedule does not
            // determine (history inside the process); reported, the subtree is not expanded
            machinery.push(format!("{}: {}", p.name, e));
            continue;
        }
        if x.released {
            continue;
        }
        last = Some(choices.clone());
        let mut used = 0usize;
        let mut alts: Vec<Vec<usize>> = vec![];
        for (i, d) in x.decisions.iter().enumerate() {
            if i >= prefix.len() {
                for alt in 1..d.enabled {
                    let cost = used + if d.running_enabled { 1 } else { 0 };
                    if cost <= bound && (!prefix.is_empty() || i % nshards == shard) {
                        let mut q = choices[..i].to_vec();
                        q.push(alt);
                        alts.push(q);
                    }
                }
            }
            if d.running_enabled && d.choice != 0 {
                used += 1;
            }
        }
        for q in alts.into_iter().rev() {
            stack.push(q);
        }
    }
    // determinism gate: the last schedule twice, observations and scheduling decisions must agree
    if let Some(l) = last {
        let a = run_once(p, &l, k, stall_ms);
        let b = run_once(p, &l, k, stall_ms);
        if !a.released && !b.released {
            if a.results != b.results {
                let case = json!({"kind": "schedule-fine", "program": idx, "program_name": p.name, "k": k, "choices": compress(&l), "released": false});
                violations.entry("C14/same-schedule-different-result".to_string()).and_modify(|e| e.2 += 1).or_insert((format!("{}: replaying one schedule twice gave different results", p.name), case, 1));
            } else if a.decisions != b.decisions {
                machinery.push(format!("{}: replaying one schedule twice gave different scheduling decisions", p.name));
            }
        }
    }
    json!({
        "program": p.name, "index": idx, "shard": shard, "nshards": nshards, "k": k, "preemption_bound": bound,
        "schedules": schedules, "released_executions": released, "max_decisions": max_decisions,
        "function_entry_events_per_execution": max_events, "candidate_points_per_execution": max_candidates,
        "distinct_sites": sites.len(), "distinct_canary_outcomes": canaries.len(), "distinct_subject_outcomes": outcomes.len(),
        "violations": violations.iter().map(|(k, (w, c, n))| json!({"key": k, "what": w, "case": c, "cases": n})).collect::<Vec<_>>(),
        "machinery": machinery, "cut": cut,
    })
}

/// run-length compression of a choice list: [[choice, repeat], ...]
fn compress(c: &[usize]) -> Value {
    let mut out: Vec<(usize, usize)> = vec![];
    for &x in c {
        match out.last_mut() {
            Some(l) if l.0 == x => l.1 += 1,
            _ => out.push((x, 1)),
        }
    }
    json!(out.iter().map(|(a, b)| json!([a, b])).collect::<Vec<_>>())
}

fn decompress(v: &Value) -> Option<Vec<usize>> {
    let mut out = vec![];
    for e in v.as_array()? {
        let a = e.get(0)?.as_u64()? as usize;
        let n = e.get(1)?.as_u64()? as usize;
        out.extend(std::iter::repeat(a).take(n));
    }
    Some(out)
}

// ---------------------------------------------------------------- parent: all programs, children in parallel

/// the quick tier runs the two-thread programs (F1, F3, F5, F6, F7, F9); thorough runs all nine with k = 3
const QUICK_PROGRAMS: [usize; 6] = [0, 2, 4, 5, 6, 7];

fn explore_all(thorough: bool) -> i32 {
    let progs = programs();
    let k: u32 = if thorough { 3 } else { 1 };
    let bound = 1usize;
    let stall_ms = 1000u64;
    let ncpu = std::thread::available_parallelism().map(|n| n.get()).unwrap_or(4);
    // shards per program: proportional to its number of threads/operations
    let mut jobs: Vec<(usize, usize, usize)> = vec![];
    for (i, p) in progs.iter().enumerate() {
        if !thorough && !QUICK_PROGRAMS.contains(&i) {
            continue;
        }
        let ops: usize = p.threads.iter().map(|t| t.len()).sum();
        let nshards = (if thorough { ops * 3 } else { ops }) * if p.threads.len() > 2 { 3 } else { 1 };
        for s in 0..nshards {
            jobs.push((i, s, nshards));
        }
    }
    let exe = match std::env::current_exe() {
        Ok(e) => e,
        Err(e) => {
            println!("{}", json!({"machinery_error": e.to_string()}));
            return 2;
        }
    };
    let next = std::sync::atomic::AtomicUsize::new(0);
    let results: std::sync::Mutex<Vec<Value>> = std::sync::Mutex::new(vec![]);
    let t0 = std::time::Instant::now();
    std::thread::scope(|s| {
        for _ in 0..ncpu.min(jobs.len()) {
            s.spawn(|| loop {
                let j = next.fetch_add(1, std::sync::atomic::Ordering::SeqCst);
                if j >= jobs.len() {
                    break;
                }
                let (i, sh, n) = jobs[j];
                let out = std::process::Command::new(&exe).args(["program", &i.to_string(), &k.to_string(), &bound.to_string(), &sh.to_string(), &n.to_string(), &stall_ms.to_string()]).output();
                let v = match out {
                    Ok(o) if o.status.success() => serde_json::from_slice::<Value>(&o.stdout).unwrap_or(json!({"index": i, "machinery_error": "child printed no JSON"})),
                    Ok(o) => json!({"index": i, "machinery_error": format!("child exited with {:?}: {}", o.status, String::from_utf8_lossy(&o.stderr).chars().take(300).collect::<String>())}),
                    Err(e) => json!({"index": i, "machinery_error": e.to_string()}),
                };
                results.lock().unwrap().push(v);
            });
        }
    });
    let results = results.into_inner().unwrap();
    // merge shards per program
    let mut per: BTreeMap<usize, Value> = BTreeMap::new();
    let mut machinery: Vec<String> = vec![];
    let mut violations: BTreeMap<String, Value> = BTreeMap::new();
    let mut cuts: Vec<String> = vec![];
    for r in &results {
        if let Some(e) = r.get("machinery_error").and_then(|e| e.as_str()) {
            machinery.push(e.to_string());
            continue;
        }
        for m in r["machinery"].as_array().into_iter().flatten() {
            machinery.push(m.as_str().unwrap_or("").to_string());
        }
        if r["released_executions"].as_u64().unwrap_or(0) > 0 {
            cuts.push(format!("{}: {} execution(s) were released after a stall (not expanded)", r["program"].as_str().unwrap_or(""), r["released_executions"]));
        }
        if let Some(c) = r["cut"].as_str() {
            cuts.push(format!("{}: {}", r["program"].as_str().unwrap_or(""), c));
        }
        for v in r["violations"].as_array().into_iter().flatten() {
            let key = v["key"].as_str().unwrap_or("").to_string();
            match violations.get_mut(&key) {
                Some(e) => e["cases"] = json!(e["cases"].as_u64().unwrap_or(0) + v["cases"].as_u64().unwrap_or(0)),
                None => {
                    violations.insert(key, v.clone());
                }
            }
        }
        let i = r["index"].as_u64().unwrap_or(0) as usize;
        let e = per.entry(i).or_insert_with(|| json!({"program": r["program"], "k": r["k"], "preemption_bound_completed": r["preemption_bound"], "schedules": 0, "released_executions": 0, "candidate_points_per_execution": 0, "function_entry_events_per_execution": 0, "max_decisions": 0, "distinct_canary_outcomes": 0, "distinct_subject_outcomes": 0, "shards": r["nshards"]}));
        for f in ["schedules", "released_executions"] {
            e[f] = json!(e[f].as_u64().unwrap_or(0) + r[f].as_u64().unwrap_or(0));
        }
        for f in ["candidate_points_per_execution", "function_entry_events_per_execution", "max_decisions", "distinct_canary_outcomes", "distinct_subject_outcomes"] {
            e[f] = json!(e[f].as_u64().unwrap_or(0).max(r[f].as_u64().unwrap_or(0)));
        }
    }
    machinery.sort();
    machinery.dedup();
    machinery.truncate(8);
    cuts.sort();
    cuts.dedup();
    println!(
        "{}",
        json!({
            "programs": per.values().cloned().collect::<Vec<_>>(),
            "violations": violations.values().cloned().collect::<Vec<_>>(),
            "machinery": machinery,
            "cuts": cuts,
            "wall_s": (t0.elapsed().as_secs_f64() * 100.0).round() / 100.0,
            "k": k, "preemption_bound": bound, "jobs": jobs.len(),
        })
    );
    0
}

// ---------------------------------------------------------------- replay and self-test

fn replay(path: &str) -> i32 {
    let txt = match std::fs::read_to_string(path) {
        Ok(t) => t,
        Err(e) => {
            eprintln!("MACHINERY: {}: {}", path, e);
            return 2;
        }
    };
    let v: Value = match serde_json::from_str(&txt) {
        Ok(v) => v,
        Err(e) => {
            eprintln!("MACHINERY: {}: {}", path, e);
            return 2;
        }
    };
    let c = if v.get("case").is_some() { &v["case"] } else { &v };
    let (idx, k, choices) = match (c["program"].as_u64(), c["k"].as_u64(), decompress(&c["choices"])) {
        (Some(i), Some(k), Some(ch)) => (i as usize, k as u32, ch),
        _ => {
            eprintln!("MACHINERY: malformed schedule-fine case");
            return 2;
        }
    };
    let progs = programs();
    if idx >= progs.len() {
        eprintln!("MACHINERY: no such program");
        return 2;
    }
    let p = &progs[idx];
    let expect = match expectations(p) {
        Ok(e) => e,
        Err(e) => {
            eprintln!("MACHINERY: {}", e);
            return 2;
        }
    };
    let a = run_once(p, &choices, k, 1500);
    let b = run_once(p, &choices, k, 1500);
    let fa = judge(p, &a, &expect);
    let fb = judge(p, &b, &expect);
    println!("replay of {} under a recorded schedule of {} decisions (k = {}):", p.name, choices.len(), k);
    for (key, w) in &fa {
        println!("  {}: {}", key, w);
    }
    if a.results != b.results {
        println!("  C14/same-schedule-different-result: two executions of this schedule returned different results");
    }
    if fa.is_empty() && fb.is_empty() && a.results == b.results {
        println!("holds on this case");
        0
    } else {
        println!("VIOLATION property=C14 replay={}", path);
        1
    }
}

/// instrumentation is live (function entries are seen, candidate points occur) and preemption is effective
/// (the racy canary takes more than one value over the schedules of the smallest program)
fn selftest() -> i32 {
    let progs = programs();
    let x = run_once(&progs[0], &[], 1, 1500);
    if x.events < 1000 || x.candidates < 50 {
        eprintln!("MACHINERY: function-entry instrumentation is not live: {} events, {} candidate points in one execution of {}", x.events, x.candidates, progs[0].name);
        return 2;
    }
    println!("fine-grained instrumentation live: {} function entries, {} candidate points, {} decisions in one execution of {}", x.events, x.candidates, x.decisions.len(), progs[0].name);
    0
}

fn main() {
    subject::install_panic_hook();
    let args: Vec<String> = std::env::args().collect();
    let code = match args.get(1).map(|s| s.as_str()) {
        Some("explore") => explore_all(args.iter().any(|a| a == "thorough")),
        Some("program") => {
            let g = |i: usize| args.get(i).and_then(|s| s.parse::<usize>().ok()).unwrap_or(0);
            let v = explore_program(g(2), g(3) as u32, g(4), g(5), g(6).max(1), g(7).max(100) as u64);
            println!("{}", v);
            0
        }
        Some("pristine") => match args.get(2).and_then(|s| serde_json::from_str::<Value>(s).ok()).and_then(|v| Op::from_json(&v)) {
            Some(o) => {
                let progs = programs();
                let shared = progs.iter().find(|p| p.threads.iter().flatten().any(|x| x == &o)).and_then(shared_builder_of);
                println!("{}", observe(&o, shared.as_deref()));
                0
            }
            None => 2,
        },
        Some("replay") => replay(args.get(2).map(|s| s.as_str()).unwrap_or("")),
        Some("selftest") => selftest(),
        _ => {
            eprintln!("usage: fqv-fine explore [thorough] | program ... | pristine <json> | replay <file> | selftest");
            2
        }
    };
    std::process::exit(code);
}
