//! `mcount` for the instrumented build of fast_qr. Must live in a crate that is NOT compiled with
//! -Zinstrument-mcount (its own functions would call themselves).
//!
//! The instrumented function calls `mcount` with an ordinary C call right after its prologue, so
//!   [rsp]   = return address into the function that has just been entered  (identifies the function)
//!   [rbp+8] = return address into its caller                                (identifies the call site)
//! (frame pointers are forced for the instrumented crate). The trampoline passes both to the Rust side.

use std::cell::Cell;

core::arch::global_asm!(
    ".globl mcount",
    ".type mcount,@function",
    "mcount:",
    "mov rdi, [rsp]",
    "mov rsi, [rbp+8]",
    "jmp {imp}",
    imp = sym fqv_mcount_impl,
);

/// per-thread receiver of function-entry events
pub struct Receiver {
    pub f: fn(*const (), usize, usize),
    pub data: *const (),
}

thread_local! {
    static CUR: Cell<*const Receiver> = const { Cell::new(std::ptr::null()) };
    static BUSY: Cell<bool> = const { Cell::new(false) };
}

#[no_mangle]
extern "C" fn fqv_mcount_impl(own: usize, parent: usize) {
    let p = CUR.with(|c| c.get());
    if p.is_null() {
        return;
    }
    if BUSY.with(|b| b.replace(true)) {
        return;
    }
    unsafe { ((*p).f)((*p).data, own, parent) };
    BUSY.with(|b| b.set(false));
}

/// Installs `r` for the calling thread; the pointer must stay valid until `uninstall`.
pub fn install(r: *const Receiver) {
    CUR.with(|c| c.set(r));
}

pub fn uninstall() {
    CUR.with(|c| c.set(std::ptr::null()));
}

/// number of events is counted by the receiver; this only tells whether instrumentation is live
pub fn installed() -> bool {
    CUR.with(|c| !c.get().is_null())
}
