#!/bin/bash
# setup_cmd: offline release build of the harness (with the repository as path dependency, hooks on),
# the LD_PRELOAD fault shim, and the reference-model self-check.
set -eu
cd "$(dirname "$0")"
export VERIF_DIR="$PWD"
export CARGO_NET_OFFLINE=true
export RUSTFLAGS="--cfg fast_qr_verif"
export CARGO_TARGET_DIR="$VERIF_DIR/target"
mkdir -p scratch evidence replays
(cd harness && cargo build --release --offline 2>&1 | tail -3)
if [ -f faultshim/shim.c ]; then gcc -O1 -shared -fPIC -o faultshim/faultshim.so faultshim/shim.c -ldl; fi
"$CARGO_TARGET_DIR/release/fqv" selfcheck
