#!/bin/bash
# setup_cmd: offline release build of the harness (with the repository as path dependency, hooks on),
# the LD_PRELOAD fault shim, the instrumented second build for C14 (d), and the reference-model self-check.
set -eu
cd "$(dirname "$0")"
export VERIF_DIR="$PWD"
export CARGO_NET_OFFLINE=true
export RUSTFLAGS="--cfg fast_qr_verif"
export CARGO_TARGET_DIR="$VERIF_DIR/target"
mkdir -p scratch evidence replays
(cd harness && cargo build --release --offline 2>&1 | tail -3)
if [ -f faultshim/shim.c ]; then gcc -O1 -shared -fPIC -o faultshim/faultshim.so faultshim/shim.c -ldl; fi
"$CARGO_TARGET_DIR/release/fqv" selfcheck
# instrumented build (nightly toolchain); a failure here is reported but does not fail the setup: C14 then runs
# without sub-exploration (d) and says so
if (cd harness-fine && CARGO_TARGET_DIR="$VERIF_DIR/target-fine" cargo +nightly build --release --offline 2>&1 | tail -2); then
  "$VERIF_DIR/target-fine/release/fqv-fine" selftest || echo "NOTE: fqv-fine selftest failed"
else
  echo "NOTE: instrumented build (harness-fine) failed"
fi
