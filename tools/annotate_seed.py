#!/usr/bin/env python3
"""Development aid: records in a seed's meta.json that a check reports it only since a later strengthening.
usage: annotate_seed.py <seed-name> <check-id> <what was added>"""
import json, sys
name, cid, what = sys.argv[1], sys.argv[2], sys.argv[3]
p = f"/verif/seeded/{name}/meta.json"
m = json.load(open(p))
rep = m.get("reported_by", [])
if cid not in rep:
    rep.append(cid)
m["reported_by"] = sorted(rep)
if cid == m.get("property_broken"):
    m["target_property_reported"] = True
    m.pop("not_reported_by_target_check", None)
m["caught_only_after"] = what
m.pop("note", None) if m.get("target_property_reported") else None
json.dump(m, open(p, "w"), indent=1); open(p, "a").write("\n")
print(name, m["reported_by"])
