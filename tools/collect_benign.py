#!/usr/bin/env python3
"""Development aid: copies the property-preserving sub-agent changes into /verif/benign/<area>-<k>/ with a meta.json
recording what the change does and the result of running all quick checks on it (expected: no VIOLATION, exit 0)."""
import json, os, re, shutil, sys, glob
root, resdir = sys.argv[1], sys.argv[2]
out_root = "/verif/benign"
for d in sorted(glob.glob(f"{root}/*/benign/[0-9]*")):
    if not os.path.isdir(d): continue
    m = re.match(r".*/(\w+)/benign/(\d+)$", d)
    area, k = m.group(1), m.group(2)
    res = f"{resdir}/{area}_{k}.txt"
    if not os.path.exists(res): continue
    txt = open(res).read()
    suite = re.search(r"repository tests:\s+Summary \[[^\]]*\] (.*)", txt)
    flagged = re.search(r"=> flagged:(.*)", txt)
    flagged = flagged.group(1).split() if flagged else None
    exit2 = re.findall(r"^\s+(C\d+) exit=(\d+) (.*)", txt, re.M)
    try: am = json.load(open(d + "/meta.json"))
    except Exception: am = {}
    od = f"{out_root}/{area}-{k}"
    os.makedirs(od, exist_ok=True)
    shutil.copy(d + "/patch.diff", od + "/patch.diff")
    meta = {"kind": "property-preserving change (no check may raise an alarm)",
            "author": "independent sub-agent given the 19 property statements and a scratch worktree",
            "summary": am.get("summary", ""), "observable_difference": am.get("observable_difference", ""),
            "why_all_properties_still_hold": am.get("why_all_properties_still_hold", ""),
            "repository_suite_with_change": suite.group(1).strip() if suite else None,
            "checks_run": "tools/mutant_lab.sh run patch.diff (all 19 quick checks)",
            "checks_reporting_a_violation": flagged, "checks_with_machinery_exit": exit2}
    json.dump(meta, open(od + "/meta.json", "w"), indent=1); open(od + "/meta.json", "a").write("\n")
    print(f"{area}-{k}: violations={flagged} exit2={[e[0] for e in exit2]}")
