#!/usr/bin/env python3
"""Development aid: fills section 10.2 / 10.3 of DESIGN.md from /verif/seeded/*/meta.json and /verif/benign/*/meta.json
(between the marker comments)."""
import json, glob, os, re
def short(s, n):
    s = " ".join(str(s).split())
    return s if len(s) <= n else s[: n - 1] + "…"
rows = []
for d in sorted(glob.glob("/verif/seeded/*")):
    try: m = json.load(open(d + "/meta.json"))
    except Exception: continue
    name = os.path.basename(d)
    rep = m.get("reported_by", [])
    tgt = m.get("property_broken")
    others = ' '.join(x for x in rep if x != tgt)
    if tgt in rep:
        who = '**' + tgt + '**' + (' ' + others if others else '')
    elif rep:
        who = others + ' (not ' + tgt + ': ' + short(m.get('note', ''), 90) + ')'
    else:
        who = 'none — ' + short(m.get('note', ''), 160)
    if m.get('caught_only_after'):
        who += ' — only since: ' + short(m['caught_only_after'], 120)
    rows.append(f"| `{name}` | {short(m.get('summary',''), 110).replace('|','/')} | {short(m.get('needs_to_manifest',''), 90).replace('|','/')} | {who.replace('|','/')} |")
seeds = "| seed | change | needs | reported by (target property in bold) |\n|---|---|---|---|\n" + "\n".join(rows)
brow = []
for d in sorted(glob.glob("/verif/benign/*")):
    try: m = json.load(open(d + "/meta.json"))
    except Exception: continue
    v = m.get("checks_reporting_a_violation")
    e2 = m.get("checks_with_machinery_exit") or []
    brow.append(f"| `{os.path.basename(d)}` | {short(m.get('summary',''), 170).replace('|','/')} | {'none' if not v else ' '.join(v)} | {'none' if not e2 else ' '.join(x[0] for x in e2)} |")
ben = "| change | what it does | checks with a VIOLATION | checks with exit 2 |\n|---|---|---|---|\n" + "\n".join(brow)
p = "/verif/DESIGN.md"
s = open(p).read()
def put(s, tag, body):
    a, b = f"<!-- {tag}:begin -->", f"<!-- {tag}:end -->"
    if a in s:
        return s[: s.index(a) + len(a)] + "\n" + body + "\n" + s[s.index(b):]
    return s.replace(tag.upper() + "_PLACEHOLDER", a + "\n" + body + "\n" + b)
s = put(s, "seeds_table", seeds)
s = put(s, "benign", ben)
open(p, "w").write(s)
print(len(rows), "seeds,", len(brow), "benign")
