#!/usr/bin/env python3
"""Development aid: updates /verif/benign/<name>/meta.json from the result files of a run of all quick checks on
every property-preserving change (usage: update_benign.py <result-dir> "<what harness>")."""
import json, os, re, sys, glob
resdir, what = sys.argv[1], sys.argv[2]
n = 0
for d in sorted(glob.glob("/verif/benign/*")):
    name = os.path.basename(d)
    res = f"{resdir}/{name}.txt"
    if not os.path.exists(res):
        print("no result for", name); continue
    txt = open(res, errors="replace").read()
    suite = re.search(r"repository tests:\s+Summary \[[^\]]*\] (.*)", txt)
    flagged = re.search(r"=> flagged:(.*)", txt)
    if flagged is None:
        print("incomplete result for", name); continue
    flagged = flagged.group(1).split()
    exit2 = re.findall(r"^\s+(C\d+) exit=(\d+) (.*)", txt, re.M)
    m = json.load(open(d + "/meta.json"))
    m["repository_suite_with_change"] = suite.group(1).strip() if suite else None
    m["checks_run"] = "tools/mutant_lab.sh run patch.diff (all 19 quick checks), " + what
    m["checks_reporting_a_violation"] = flagged
    m["checks_with_machinery_exit"] = exit2
    json.dump(m, open(d + "/meta.json", "w"), indent=1); open(d + "/meta.json", "a").write("\n")
    n += 1
    if flagged or exit2: print(name, "violations:", flagged, "exit2:", [e[0] for e in exit2])
print(n, "updated")
