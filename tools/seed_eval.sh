#!/bin/bash
# Development aid: confirm one sub-agent seed (suite passes, demo fails with / passes without the change) and run all
# quick checks against it in a lab mirror.  usage: LAB=/var/tmp/mhN WT=/tmp/wt-confirmN seed_eval.sh <seed-dir> [RUSTFLAGS for the demo]
set -u
D="$1"; FLAGS="${2:-}"
HERE="$(cd "$(dirname "$0")" && pwd)"
echo "== $D"
"$HERE/confirm_seed.sh" "$D" "$FLAGS"
"$HERE/mutant_lab.sh" run "$D/patch.diff"
