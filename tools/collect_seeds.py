#!/usr/bin/env python3
"""Development aid: copies confirmed sub-agent seeds into /verif/seeded/<round>-<prop>-<k>/ with a meta.json that
records what the change needs in order to manifest, what was run to confirm it, and which checks report it.
usage: collect_seeds.py <round-label> <seed-root (e.g. /tmp/seed)> <result-dir (e.g. /var/tmp/seedres)> [result-prefix]"""
import json, os, re, shutil, sys, glob
label, root, resdir = sys.argv[1], sys.argv[2], sys.argv[3]
pfx = sys.argv[4] + "_" if len(sys.argv) > 4 else ""
out_root = "/verif/seeded"
rows = []
for d in sorted(glob.glob(f"{root}/C*/seed/[abc]")):
    m = re.match(r".*/(C\d+)/seed/(.)$", d)
    prop, k = m.group(1), m.group(2)
    res = f"{resdir}/{pfx}{prop}_{k}.txt"
    if not os.path.exists(res):
        continue
    txt = open(res, errors="replace").read()
    r = re.search(r"RESULT \S+ applies=(\w+)(?: suite=\[(.*?)\] with_change=\[(.*?)\] clean=\[(.*?)\])?", txt)
    if not r or r.group(1) != "yes":
        print("skip (not applied)", d); continue
    suite, withc, clean = r.group(2), r.group(3), r.group(4)
    suite_ok = "174 passed" in suite and "failed" not in suite
    demo_fails = ("test result: ok" not in withc)
    demo_clean_ok = ("test result: ok" in clean)
    old = re.search(r"^OLD-HARNESS\s+=> flagged:(.*)$", txt, re.M)
    old_flagged = old.group(1).split() if old else []
    allf = re.findall(r"^\s+=> flagged:(.*)$", txt, re.M)
    final_flagged = allf[-1].split() if allf else []
    if not old_flagged and len(allf) > 1:
        old_flagged = allf[0].split()
    if len(allf) == 1 and "OLD-HARNESS" not in txt and txt.count(" VIOLATION ") + txt.count(" exit=") >= 0 and "C14 C10 C01" not in txt:
        pass
    ran = re.findall(r"^\s+(C\d+) (?:VIOLATION|exit=)", txt, re.M)
    flagged = sorted(set(old_flagged) | set(final_flagged))
    keys = {}
    for mm in re.finditer(r"^\s+(C\d+) VIOLATION\s+(\S+) \((\d+) case", txt, re.M):
        keys.setdefault(mm.group(1), mm.group(2))
    exit2 = re.findall(r"^\s+(C\d+) exit=(\d+)", txt, re.M)
    try:
        am = json.load(open(d + "/meta.json"))
    except Exception:
        am = {}
    confirmed = suite_ok and demo_fails and demo_clean_ok
    name = f"{label}-{prop}-{k}"
    row = dict(name=name, prop=prop, confirmed=confirmed, flagged=flagged, suite=suite, keys=keys)
    rows.append(row)
    if not confirmed:
        print("NOT CONFIRMED", name, suite, withc[:60], clean[:60]); continue
    od = f"{out_root}/{name}"
    os.makedirs(od, exist_ok=True)
    shutil.copy(d + "/patch.diff", od + "/patch.diff")
    shutil.copy(d + "/demo.rs", od + "/demo.rs")
    meta = {
        "property_broken": prop,
        "author": "independent sub-agent given only the property text and a scratch worktree (round %s)" % label,
        "summary": am.get("summary", ""),
        "needs_to_manifest": am.get("needs_to_manifest", ""),
        "why_repository_tests_pass": am.get("why_tests_pass", ""),
        "confirmed_by_me": {
            "how": "tools/confirm_seed.sh in a scratch worktree of /repo HEAD: git apply; cargo nextest run --workspace --no-fail-fast --offline; demo.rs copied to tests/demo.rs and run with cargo test --offline --features image --test demo, with the change and on the clean checkout",
            "repository_suite_with_change": suite,
            "demo_with_change": withc,
            "demo_on_clean_checkout": clean,
        },
        "checks_run": "tools/mutant_lab.sh run patch.diff in a mirror of /verif + /repo: all 19 quick checks with the harness at the time of the round (where listed), then the target property's check, C14, C10 and C01 with the harness after the third round",
        "reported_by": flagged,
        "reported_by_all_19_at_round_time": old_flagged,
        "reported_by_target_C14_C10_C01_after_round_3": final_flagged,
        "first_violation_key_per_check": keys,
        "target_property_reported": prop in flagged,
    }
    if exit2:
        meta["checks_with_machinery_exit"] = exit2
    json.dump(meta, open(od + "/meta.json", "w"), indent=1)
    open(od + "/meta.json", "a").write("\n")
print()
for r in rows:
    print(f"{r['name']:12s} confirmed={r['confirmed']!s:5s} target={'Y' if r['prop'] in r['flagged'] else '-'} flagged={' '.join(r['flagged'])}")
