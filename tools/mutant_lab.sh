#!/bin/bash
# Development aid (not part of any registered check): a mirror of /verif + /repo under $LAB (default
# /var/tmp/mh) in which patches are applied and the quick checks run, so that /repo itself is never
# touched while background runs use it.  Several labs can run side by side (LAB=/var/tmp/mh2 ...).
# usage: tools/mutant_lab.sh setup | sync | run <patch.diff> [ID...] | clean         (TIER=quick|thorough)
set -u
LAB=${LAB:-/var/tmp/mh}
TIER=${TIER:-quick}
case "${1:-}" in
  setup)
    rm -rf "$LAB"; mkdir -p "$LAB"
    git -C /repo worktree prune
    git -C /repo worktree add -q --detach "$LAB/repo" HEAD
    mkdir -p "$LAB/verif"
    rsync -a --exclude target --exclude target-fine --exclude scratch --exclude .git --exclude replays --exclude evidence /verif/ "$LAB/verif/"
    sed -i "s#path = \"/repo\"#path = \"$LAB/repo\"#" "$LAB/verif/harness/Cargo.toml" "$LAB/verif/harness-fine/Cargo.toml"
    sed -i "s#target-dir = \"/verif/target\"#target-dir = \"$LAB/verif/target\"#" "$LAB/verif/.cargo/config.toml"
    mkdir -p "$LAB/verif/replays" "$LAB/verif/evidence"
    (cd "$LAB/verif" && VERIF_REPO="$LAB/repo" ./setup.sh | tail -2)
    ;;
  sync)
    rsync -a --exclude target --exclude target-fine --exclude scratch --exclude .git --exclude replays --exclude evidence --exclude harness/Cargo.toml --exclude harness-fine/Cargo.toml --exclude .cargo /verif/ "$LAB/verif/"
    git -C "$LAB/repo" checkout -q --detach "$(git -C /repo rev-parse HEAD)"
    ;;
  run)
    patch="$2"; shift 2
    ids="$*"; [ -z "$ids" ] && ids="C01 C02 C03 C04 C05 C06 C07 C08 C09 C10 C11 C12 C13 C14 C15 C16 C17 C18 C19"
    git -C "$LAB/repo" checkout -q -- . ; git -C "$LAB/repo" clean -fdq -- src tests
    if ! git -C "$LAB/repo" apply "$patch"; then echo "PATCH DOES NOT APPLY: $patch"; exit 3; fi
    tests=$(cd "$LAB/repo" && cargo nextest run --workspace --no-fail-fast --offline 2>&1 | grep -E "Summary|error(\[|:)" | head -3 | tr '\n' ' ')
    echo "mutant $patch: repository tests: $tests"
    flagged=""
    for id in $ids; do
      out=$(cd "$LAB/verif" && VERIF_REPO="$LAB/repo" ./check "$id" --tier "$TIER" 2>&1); code=$?
      key=$(echo "$out" | grep -m1 -E "^  C[0-9]+/" | cut -c1-160)
      if [ $code -eq 1 ]; then flagged="$flagged $id"; echo "   $id VIOLATION $key"; elif [ $code -ne 0 ]; then echo "   $id exit=$code $(echo "$out" | grep -m2 MACHINERY | cut -c1-200)"; fi
    done
    echo "   => flagged:$flagged"
    git -C "$LAB/repo" checkout -q -- . ; git -C "$LAB/repo" clean -fdq -- src tests
    ;;
  clean)
    git -C /repo worktree remove --force "$LAB/repo" 2>/dev/null; rm -rf "$LAB"; git -C /repo worktree prune
    ;;
  *) echo "usage: $0 setup|sync|run <patch> [ids]|clean"; exit 2;;
esac
