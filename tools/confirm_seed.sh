#!/bin/bash
# Development aid: confirms a seeded change in a scratch worktree: (1) it applies, (2) the 174 pinned tests
# pass with it, (3) its demonstration fails with it and (4) passes without it.
# usage: [WT=/tmp/wt-confirm] confirm_seed.sh <seed-dir containing patch.diff and demo.rs> [extra RUSTFLAGS]
set -u
D="$1"; FLAGS="${2:-}"
WT=${WT:-/tmp/wt-confirm}
if [ ! -d "$WT" ]; then git -C /repo worktree add -q --detach "$WT" HEAD; fi
git -C "$WT" checkout -q --detach "$(git -C /repo rev-parse HEAD)" 2>/dev/null
git -C "$WT" checkout -q -- . ; git -C "$WT" clean -fdq -- src tests
cd "$WT"
if ! git apply --check "$D/patch.diff" 2>/dev/null; then echo "RESULT $D applies=no"; exit 1; fi
git apply "$D/patch.diff"
suite=$(cargo nextest run --workspace --no-fail-fast --offline 2>&1 | grep -E "Summary" | sed 's/.*Summary *\[[^]]*\] *//')
mkdir -p tests
if [ -f "$D/demo.rs" ]; then cp "$D/demo.rs" tests/demo.rs; cmd="cargo test --offline --features image --test demo";
else echo "RESULT $D no-demo"; exit 1; fi
with=$(RUSTFLAGS="$FLAGS" $cmd 2>&1 | grep -E "^test result|error(\[|:)" | tail -1)
git checkout -q -- src
without=$(RUSTFLAGS="$FLAGS" $cmd 2>&1 | grep -E "^test result|error(\[|:)" | tail -1)
rm -f tests/demo.rs
echo "RESULT $D applies=yes suite=[$suite] with_change=[$with] clean=[$without]"
