#!/usr/bin/env python3
"""Validates MANIFEST.json and evidence/*.json against the schemas in /root/.vp"""
import json, sys, glob, os
import jsonschema
HERE = os.path.dirname(os.path.dirname(os.path.abspath(__file__)))
ok = True
ms = json.load(open("/root/.vp/MANIFEST.schema.json"))
es = json.load(open("/root/.vp/EVIDENCE.schema.json"))
try:
    jsonschema.validate(json.load(open(os.path.join(HERE, "MANIFEST.json"))), ms)
    print("MANIFEST.json valid")
except Exception as e:
    ok = False; print("MANIFEST.json INVALID:", str(e)[:500])
for f in sorted(glob.glob(os.path.join(HERE, "evidence", "*.json"))):
    try:
        jsonschema.validate(json.load(open(f)), es)
        print(os.path.basename(f), "valid")
    except Exception as e:
        ok = False; print(os.path.basename(f), "INVALID:", str(e)[:500])
sys.exit(0 if ok else 1)
