#!/usr/bin/env python3
"""Generates /verif/MANIFEST.json from the table below (single source of truth for the interface)."""
import json, subprocess, os, sys

HERE = os.path.dirname(os.path.dirname(os.path.abspath(__file__)))

def hook_commits():
    try:
        out = subprocess.run(["git", "-C", "/repo", "log", "--format=%H %s"], capture_output=True, text=True).stdout
        return [l.split()[0] for l in out.splitlines() if " verif hook " in " " + l]
    except Exception:
        return []

# id -> (category, design_ref, technique, level text, level note)
CHECKS = {
 "C01": ("exploration", "5 C01; 4.2-4.8", "bounded exhaustive enumeration of input/configuration spaces on the real builder, reference decoder as oracle",
   "Every case of the stated finite spaces (all lengths x modes x levels, all 3840 forced cells, the option lattice, every packing group x alignment, every input of <= 2 bytes, every byte pair inside longer text, denser content under forced wider modes, all 24 setter orders and doubled setters, dense lengths under forced versions, UTF-8 text, anti-mask payloads, runs of equal characters by length and offset, exact occurrence counts, automatic-mode long and two-run strings, payloads at capacity whose first or last character a clean-up would drop, same-thread and same-builder build histories) is built by the real crate and decoded by an independent ISO 18004 reference decoder (data codewords taken as read, no RS repair); the payload must equal the input byte for byte. Exhaustive over those spaces, not over all byte strings.",
   "Trusted: reference model R (validated against the unrelated qrcode crate and its own round trip). Assumption A-LOCAL: content interacts only through its packing group, the linear EC code and mask selection."),
 "C02": ("exploration", "5 C02", "bounded exhaustive enumeration + exhaustive bounded fault (corruption) enumeration on real symbols",
   "All (version, level) pairs with many payloads and all masks: codewords read back, split by Table 9 in standard interleave order, all ec syndromes of every block zero (bitwise GF(256)), remainder bits zero; corruption corollary: every subset of <= t corrupted codewords on v1 (caps in quick tier) and structured patterns elsewhere decoded by a Berlekamp-Massey decoder; extreme, sparse, anti-mask and codeword-crafted payloads (incl. one pure pad block among real data) for all 160 pairs; same-thread build histories (revisits, shrink/grow) on fresh threads.",
   "Trusted: R's GF arithmetic/RS decoder (self-checked) and Table 9 as typed in R (cross-checked with the qrcode crate at setup)."),
 "C03": ("exploration", "5 C03", "bounded exhaustive enumeration of configurations, computed geometry as oracle",
   "Every coordinate of every matrix over all 40 versions x 4 levels x 8 masks x 3 modes and several payloads is compared with geometry computed from first principles (finder, separator, timing, Annex E alignment centres, dark module); the tail of the backing array must stay default; side = reported version; clone()/clone_from() reproduce the symbol; same-thread and same-builder build histories.",
   "Trusted: R's geometry (counted data modules = closed formula; cross-decoded third-party symbols)."),
 "C04": ("exploration", "5 C04", "bounded exhaustive enumeration of the forced/automatic option lattice",
   "The full lattice (level|auto) x (mask|auto) x (version|auto) x (mode|auto) and all 3840 forced cells: both format copies = computed BCH(15,5)^0x5412, both version copies = computed BCH(18,6), reported fields = physically encoded values = forced options (in all 24 setter orders, also when every setter is first called with another value), default level Q; build histories; forced modes less dense than the content up to beyond the forced mode's version-40 capacity; forced masks on uniform payloads; the input handed over in other container shapes; payloads beginning with byte-order marks / schemes / line ends.",
   "Trusted: R's BCH computation (distance self-check, ISO example words)."),
 "C05": ("exploration", "5 C05", "bounded exhaustive enumeration of lengths x forced versions against the capacity inequality",
   "Thorough: every length 0..=7200 x 3 modes x 4 levels with automatic version and the complete (length x forced version) triangle; quick: all 480 capacity thresholds -1/0/+1 and their forced-version neighbourhoods; far-beyond-capacity lengths incl. the neighbourhoods of 2^16..2^24; denser content under forced wider modes with forced versions in the gap; forced versions without a level; UTF-8 text; foreign bytes far into capacity-sized strings; inputs delivered with spare capacity / grown by pushes / as String; automatic-mode long strings with one other character at every position; payloads at capacity and capacity+1 whose first or last character a clean-up would drop; expected version/error from R's capacity inequality.",
   "Trusted: R's capacity computation (Table 9 + geometry). An input beyond version 40 must give 'data too big' also when a version is forced."),
 "C06": ("exploration", "5 C06", "bounded exhaustive enumeration, bit-exact comparison with the reference 7.4 encoder",
   "All data codewords of every symbol of S_len, S_cell, S_group, S_small, S_opt, S_pair_ctx, S_cross, S_order, S_forced_dense, S_cap_families (incl. sparse), S_runs, S_counts, utf8 text (thorough: the complete length x forced-version triangle) equal R's single-segment bit stream (indicator, count width class, packing, terminator, bit padding, pad alternation to capacity).",
   "Trusted: R's bit-stream encoder. A-LOCAL as for C01."),
 "C09": ("exploration", "5 C09", "bounded exhaustive enumeration of short inputs and class patterns",
   "Every byte string of length <= 2, all class patterns to length 8, all 256 byte values at every position of strings to length 5/6, long strings with one foreign character at every position, every byte value at chosen positions of longer strings, two-run strings with a foreign byte (also under forced versions), a corpus of scheme/record prefixes with BOM and line ends, foreign bytes far into capacity-sized strings, the S_len length set, a ruling-out byte value occurring exactly 255..1280 times, runs of equal characters by length and offset, sign / point / exponent characters among digits: mode field and decoded indicator equal R's literal definition and the characters decode unchanged.",
   "The classification is per byte; strings longer than the enumerated ones are covered by class patterns and position sweeps, not jointly."),
 "C10": ("exploration", "5 C10", "bounded exhaustive enumeration under catch_unwind with overflow checks and debug assertions",
   "Union of all build spaces (lengths to 8000, all cells, option lattice, groups, short inputs, forced-version neighbourhoods, far-beyond-capacity lengths, class patterns, byte pairs in context, denser content under forced modes, setter orders, dense forced lengths, anti-mask payloads, corpus, long foreign, runs, counts), all after three builds outside the domain that panic and are caught: build returns Ok or a documented error, never unwinds; subject compiled with overflow checks and debug assertions.",
   "A process abort (as opposed to a panic) is attributed by the supervising parent process; non-termination by a watchdog."),
 "C07": ("exploration", "5 C07; 4.6", "bounded exhaustive enumeration of block contents on a linearity basis through the hooked division routine",
   "All 160 generators coefficient by coefficient against prod(x - alpha^i); for each of the 98 block shapes in use: zero block, every single-nonzero-byte block (255 values x every position), all position pairs, dense and zero-run blocks through the real division routine vs R's schoolbook remainder over a bitwise-defined field; the real interleaver for all 160 layouts incl. data whose only non-zero byte sits at the start, middle or one of the last nine positions of one block; API tie-in on v1-v3(5).",
   "Hook H1 forwards to the crate-private routines. A-LIN: non-linearity confined to >= 3 interacting bytes would escape."),
 "C08": ("exploration", "5 C08; 4.7", "bounded exhaustive enumeration of all coordinates x all 8 masks x all 40 sizes",
   "For all 160 (version, level) and several payloads the 8 forced-mask builds and the automatic one are compared at every coordinate: data modules differ exactly where the literal Table 10 predicates disagree, function modules identical, and un-masking with the mask named in each symbol's own format information yields one matrix (implies all 28 pairs). The public masking entry point on an all-data grid of every side x 8 masks shows Table 10 at every coordinate (nothing outside the square) and the build that follows on the same thread is the reference symbol, in this process and in 4 fresh processes whose first symbol has another size.",
   "Encoding region taken from R's region map."),
 "C11": ("exploration", "5 C11; 4.8", "bounded exhaustive enumeration of selection instances, candidates observed through hook H2, documented penalty recomputed by the reference model",
   "Every input of <= 2 bytes (two levels), S_len, extreme, sparse and anti-mask payloads for all 160 (version, level), designed instances whose planted penalty feature decides a close race (seeds searched with R; versions 10, 12, 40), payloads with a zero-penalty candidate (hill climb with R), and automatic builds after a history on the same thread / builder: candidates (when all 8 are recorded) = Table 10 masks on the same placed codewords; the emitted mask is in the argmin of the documented penalty recomputed by R on the recorded candidates (ties accepted, interval on exact 5 % edges); forced mask overrides on S_cell. When the recorder is not reached once per mask the decision is black-box from the 8 forced-mask builds.",
   "Hook H2 records the candidate as scored. Only argmin membership is compared."),
 "C16": ("exploration", "5 C16", "bounded exhaustive enumeration incl. the complete single-module basis of synthetic matrices",
   "to_str() of all S_cell symbols and of synthetic matrices (8 patterns x 40 sizes; one dark/one light module at every coordinate: quick 7 sizes, thorough all 40; two-module toggles rendered right after the all-light matrix; every eighth built symbol right after a rendering that fails on the same thread) is parsed back: line/character counts, alphabet, every module in place, one-module light border.",
   "The renderer is linear in the modules it reads (each character depends on two modules), so the single-module basis plus dense patterns covers position mix-ups."),
 "C12": ("model_checking", "5 C12", "explicit-state breadth-first search over builder programs (model state hashed), every path replayed on the real SvgBuilder; plus exhaustive sweeps",
   "All SvgBuilder call sequences to depth 3 (thorough 4) over a 32-operation alphabet are replayed on fresh real builders and rendered on two symbols; the abstract model (layer list, margin, colours, image) predicts the document, which an independent strict XML parser and SVG path interpreter check: well-formed, square viewBox/background, one path per layer, sub-paths in bijection with dark modules, every layer's geometry equal to what its shape draws alone, single image element whose decoded href equals the string. Sweeps: 40 versions x 6 shapes x margins {0,1,4,16} and wide margins to 1000; 3-8 layers on versions 20/30/40; data URIs of 2 KB to 1 MB; synthetic matrices (blank rows/columns, single modules); 5120 colours x all conversion routes; ~20 000 image strings: all strings of length <= 3 over 14 characters (XML-special, non-ASCII, braces) alone and inside 7 contexts.",
   "Model = 'setters overwrite, shape calls append'; every enumerated trace is an execution of the implementation (traces_validated_against_impl = all). Custom Shape::Command callbacks and string colours are out of scope."),
 "C13": ("exploration", "5 C13", "bounded exhaustive enumeration of renderer configurations; independent PNG decoder as oracle",
   "Square shape at original scale for all 40 versions (every pixel); 6 shapes x versions x margins x 9 fit requests x 6 colour pairs through all colour conversion routes incl. the layer's own colour (shape_color), the unnamed default shape, a half-transparent background and two layered configurations (top layer decides): pixmap square with the requested side, centre pixel of every cell exact, every pixel for the square shape at integer scale; to_bytes() decoded by an own PNG reader (inflate, CRCs, unfilter) equals the de-multiplied pixmap, also on a builder that has rendered another symbol of the same size.",
   "resvg/usvg/tiny-skia/png treated as part of the subject. Opaque module colours, background alpha 0/255 only."),
 "C17": ("model_checking", "5 C17", "explicit-state breadth-first search over option-setter programs de-duplicated on the implementation's own state, every transition executed on the real object, outputs compared with the native API",
   "BFS from SvgOptions::new() to depth 3 (thorough 4) over an 81-operation alphabet including 12 malformed colour strings, an image string with literal entities, explicit opaque / transparent alpha, a position pair with a NaN entry, position arrays of length 0-3, size without position and vice versa; every (state, operation) transition runs on the real object under catch_unwind; in every distinct state qr_svg is byte-compared with the native SvgBuilder configured from the abstract model; qr() compared with the native default build around every capacity edge; all 3906 short strings over {# 0 f g e-acute} and 144 strings of valid hex pairs followed by a tail through each colour setter; states reached again by a program whose model differs are judged against that model too; all sequences of 3 (4) entry-point calls on one thread incl. an unencodable content.",
   "Hook H4 compiles src/wasm.rs for the host; the wasm32 target itself (32-bit usize) is not executed. Malformed colour strings may be ignored or leave any valid colour."),
 "C19": ("fault_enumeration", "5 C19", "exhaustive enumeration of fault sequences up to 2 (thorough 3) deviations on the real write path by LD_PRELOAD injection, call indices discovered from the syscall log",
   "For SVG and PNG to_file on 11 (19) builder/symbol targets (default, rounded squares, a caller-supplied sparse shape, embedded image as parameterless data URI, fit_width, a fit box of 4e9 x 300, a single coloured layer, embedded image as relative file name with another output directory, an embedded image on a round backdrop, exports after exports that failed inside the renderer): real OS faults (missing directory, directory, /dev/full, NUL, empty, long non-ASCII paths, name too long), fault-free writes over 7 kinds of existing file and through relative paths with . and .. components, and every (k-th open x 12 classes | k-th write x 13 classes, incl. persistent ones) sequence of <= 2 (3) deviations, with and without a stale file; Ok implies file bytes = in-memory rendering; after a delivered fault Err or a complete file; the error value survives Debug/Display and conversion into ConvertError; never a panic or abort (child process).",
   "OS modelled by the shim's fault classes; close/fsync faults not modelled (crate does not fsync)."),
 "C18": ("exploration", "5 C18", "bounded exhaustive enumeration of frame configurations, attributes parsed back from the SVG",
   "All 2040 default placements (40 versions x 3 frame shapes x margins 0..16) and ~50k (100k thorough) override combinations: square, centred, module-aligned, monotone, < 40 %, clear of finders, image centred and no larger; overrides: requested size, gap (less at most one module), position honoured, whatever the image string (file name, XML-special characters, 6 KB data URI) and the module shape, also for positions inside the first module, also for one-decimal values, in the opposite setter order and on a reused builder; the frame located in the pixels of ImageBuilder agrees with the SVG.",
   "Real-valued overrides are a finite grid (the property says sampled)."),
 "C14": ("model_checking", "5 C14", "explicit-state search over call histories replayed on real builders (pristine child processes as oracle) + stateless exploration of all thread interleavings at guarded scheduling points under a controlled scheduler with iterative preemption bounding",
   "(a) all builder call sequences of depth 4 (thorough 5) for 4 inputs (incl. a mode setter value the input does not allow, overridden later; 4 unrelated builds), every build compared with a fresh builder in a pristine child process and with the reference encoder; (a') tie inputs (found with R) built after predecessors with different winners; (a'') one input in 64 live builders and in other containers; (e) the same builds and renders in 7 fresh processes in different orders of sizes and under another environment; (b) all SvgBuilder/terminal sequences of depth 4 and ImageBuilder sequences of depth 3 (4) incl. a failing PNG render and a failing terminal render: every render equals a fresh renderer's, QRCode untouched, renders recomputed in reverse order in a fresh process; (c) 6 thread programs (2-3 real threads, incl. a shared &QRBuilder) under a controlled scheduler: all interleavings with <= 1-2 preemptions on the fine point set (~80 points per build) and <= 2-3 on the coarse set; every thread's result = sequential pristine result; racy canary as vacuity guard; replay-twice determinism gate; (d) the same scheduler at function-entry granularity on a second build of the subject (nightly, opt-level 0, -Zinstrument-mcount, harness-defined mcount): 5 (thorough 8) thread programs incl. terminal and SVG renders of two sizes, all interleavings with <= 1 preemption at the first k (1; thorough 3) entries of every (function, call site) pair per operation, expectations from fresh single-threaded processes.",
   "(c) preempts at hook H3 points, (d) at function entries inside the crate (bound 1, first k occurrences per call site); a window without any call or needing two preemptions is left to the supplementary free-running 16-thread pass (sampling). No memory-model exploration (no atomics in the crate; source scan reported in the evidence). If the nightly instrumented build is unavailable (d) is skipped and the evidence says so."),
 "C15": ("exploration", "5 C15", "bounded exhaustive enumeration of configurations, computed region map as oracle",
   "module_type() at each of the 477 320 coordinates of the 40 sizes, under all levels/masks/modes and several payloads, equals R's ISO region map for the reported / forced version; data-label count = 8 x codewords + remainder bits; build histories; anti-mask and uniform payloads under every mask; labels of clone()/clone_from() copies; Shape::Command callbacks (registered first, second, third) receive each dark module's own coordinates, value and type.",
   "Either label accepted where an alignment pattern overlaps a timing line."),
}

NOT_YET = {
}

def main():
    props = [json.loads(l) for l in open(os.path.join(HERE, "properties.jsonl"))]
    ids = [p["id"] for p in props]
    checks = []
    na = []
    for pid in ids:
        if pid in CHECKS:
            cat, ref, tech, text, note = CHECKS[pid]
            checks.append({
                "property_id": pid,
                "quick_cmd": f"./check {pid} --tier quick",
                "thorough_cmd": f"./check {pid} --tier thorough",
                "evidence_file": f"/verif/evidence/{pid}.json",
                "replay_cmd_template": "./check --replay {path}",
                "engine": "fqv",
                "level_claimed": {"category": cat, "text": text, "design_ref": "DESIGN.md section " + ref},
                "level_note": note,
                "technique": tech,
            })
        else:
            na.append({"property_id": pid, "reason": NOT_YET.get(pid, "check not built yet (work in progress; see DESIGN.md section 5 for the plan)")})
    m = {
        "version": 1,
        "setup_cmd": "./setup.sh",
        "hooks": {
            "guard": "fast_qr_verif",
            "enable": "RUSTFLAGS=\"--cfg fast_qr_verif\" (exported by ./check and ./setup.sh, also in /verif/.cargo/config.toml); hooks live in /repo/src/verif.rs plus guarded one-line calls",
            "baseline_off_cmd": "cd /repo && cargo nextest run --workspace --no-fail-fast --offline || cargo test --workspace --no-fail-fast --offline",
            "source_commits": hook_commits(),
            "add_only": True,
        },
        "engines": [
            {"name": "fqv", "path": "/verif/harness", "serves_properties": [c["property_id"] for c in checks],
             "kind_free_text": "hand-written Rust explorers over the real crate: E1 complete cell/length sweeps, E2 breadth-first operation-sequence search with state hashing, E3 controlled scheduler over guarded scheduling points (iterative preemption bounding), E4 LD_PRELOAD fault enumerator; oracle = independent ISO 18004 reference model"},
            {"name": "fqv-fine", "path": "/verif/harness-fine", "serves_properties": ["C14"],
             "kind_free_text": "E3-fine: the controlled scheduler of fqv driven by function-entry events of a second build of fast_qr (nightly toolchain, opt-level 0, -Zinstrument-mcount; the harness defines mcount): stateless DFS over choice prefixes with preemption bound 1 at the first k entries of every (function, call site) pair, shards in child processes, replayable schedules; invoked by fqv for C14 (d)"},
        ],
        "checks": checks,
        "not_applicable": na,
        "notes": "Exit codes: 0 held, 1 VIOLATION, 2 machinery failure (never a verdict; a violation shown on the real code takes precedence over machinery notes). known_findings.json lists recorded/fixed genuine defects. When a check of a property that is conditional on a returned symbol skipped cases because the checked build of the subject panicked, it repeats itself against a release build of the subject (cargo profile relsubject, built lazily) and reports what it finds there, marked as such. seeded/ and benign/ hold the sub-agent changes used to test detection and silence; no check reads them. See DESIGN.md.",
    }
    json.dump(m, open(os.path.join(HERE, "MANIFEST.json"), "w"), indent=1)
    print("MANIFEST.json written:", len(checks), "checks,", len(na), "not_applicable")

if __name__ == "__main__":
    main()
