//! Driving the real fast_qr API: option tuples, builds under catch_unwind, observation helpers

use fast_qr::{Mask, Mode, ModuleType, QRBuilder, QRCode, Version, ECL};
use serde_json::{json, Value};
use std::cell::RefCell;
use std::panic::{catch_unwind, AssertUnwindSafe};

pub const VERSIONS: [Version; 40] = {
    use Version::*;
    [
        V01, V02, V03, V04, V05, V06, V07, V08, V09, V10, V11, V12, V13, V14, V15, V16, V17, V18,
        V19, V20, V21, V22, V23, V24, V25, V26, V27, V28, V29, V30, V31, V32, V33, V34, V35, V36,
        V37, V38, V39, V40,
    ]
};
pub const ECLS: [ECL; 4] = [ECL::L, ECL::M, ECL::Q, ECL::H];
pub const MODES: [Mode; 3] = [Mode::Numeric, Mode::Alphanumeric, Mode::Byte];
pub const MASKS: [Mask; 8] = [
    Mask::Checkerboard,
    Mask::HorizontalLines,
    Mask::VerticalLines,
    Mask::DiagonalLines,
    Mask::LargeCheckerboard,
    Mask::Fields,
    Mask::Diamonds,
    Mask::Meadow,
];

pub fn ecl_idx(e: ECL) -> usize {
    match e {
        ECL::L => 0,
        ECL::M => 1,
        ECL::Q => 2,
        ECL::H => 3,
    }
}

pub fn mode_idx(m: Mode) -> usize {
    match m {
        Mode::Numeric => 0,
        Mode::Alphanumeric => 1,
        Mode::Byte => 2,
    }
}

/// Option tuple; `None` = left automatic. version is 1..=40
#[derive(Clone, Copy, Default, PartialEq, Eq, Hash, Debug, PartialOrd, Ord)]
pub struct Opts {
    pub mode: Option<u8>,
    pub ecl: Option<u8>,
    pub version: Option<u8>,
    pub mask: Option<u8>,
    /// order in which the setters present are called: index into the 24 permutations of
    /// (mode, ecl, version, mask); 0 = that order. The final option values are the same for every order.
    /// 24..=71: with decoy calls first (see `apply`). 72..=74: setter order 0, and the input is handed over in another
    /// shape (see `deliver`): the bytes are the same.
    pub order: u8,
}

impl Opts {
    pub fn forced(m: usize, e: usize, v: usize, k: usize) -> Self {
        Opts {
            mode: Some(m as u8),
            ecl: Some(e as u8),
            version: Some(v as u8),
            mask: Some(k as u8), order: 0 }
    }
    pub fn to_json(&self) -> Value {
        json!({"mode": self.mode, "ecl": self.ecl, "version": self.version, "mask": self.mask, "setter_order": self.order})
    }
    pub fn from_json(v: &Value) -> Option<Self> {
        let g = |k: &str| -> Option<Option<u8>> {
            match v.get(k)? {
                Value::Null => Some(None),
                x => Some(Some(x.as_u64()? as u8)),
            }
        };
        Some(Opts {
            mode: g("mode")?,
            ecl: g("ecl")?,
            version: g("version")?,
            mask: g("mask")?,
            order: v.get("setter_order").and_then(|x| x.as_u64()).unwrap_or(0) as u8,
        })
    }
    pub fn apply(&self, b: &mut QRBuilder) {
        // orders 24..=71: every setter present is first called with a DIFFERENT value (last value wins), then the
        // real values follow in permutation (order % 24); 24..=47 and 48..=71 use the two other modes as decoy
        if (24..72).contains(&self.order) {
            if let Some(m) = self.mode {
                b.mode(MODES[(m as usize + if self.order >= 48 { 2 } else { 1 }) % 3]);
            }
            if let Some(e) = self.ecl {
                b.ecl(ECLS[(e as usize + 1) % 4]);
            }
            if let Some(v) = self.version {
                b.version(VERSIONS[(v as usize + 6) % 40]);
            }
            if let Some(k) = self.mask {
                b.mask(MASKS[(k as usize + 3) % 8]);
            }
        }
        for which in permutation(if self.order >= 72 { 0 } else { self.order }) {
            match which {
                0 => {
                    if let Some(m) = self.mode {
                        b.mode(MODES[m as usize]);
                    }
                }
                1 => {
                    if let Some(e) = self.ecl {
                        b.ecl(ECLS[e as usize]);
                    }
                }
                2 => {
                    if let Some(v) = self.version {
                        b.version(VERSIONS[v as usize - 1]);
                    }
                }
                _ => {
                    if let Some(k) = self.mask {
                        b.mask(MASKS[k as usize]);
                    }
                }
            }
        }
    }
}

/// the `i`-th permutation of [0, 1, 2, 3] in lexicographic order (0 = identity)
pub fn permutation(i: u8) -> [u8; 4] {
    let mut items = vec![0u8, 1, 2, 3];
    let mut i = (i % 24) as usize;
    let mut out = [0u8; 4];
    let fact = [6usize, 2, 1, 1];
    for (k, f) in fact.iter().enumerate() {
        let j = i / f;
        i %= f;
        out[k] = items.remove(j);
    }
    out
}

pub enum Outcome {
    Ok(Box<QRCode>),
    ErrData,
    ErrVersion,
    Panic(String),
}

impl Outcome {
    pub fn tag(&self) -> &'static str {
        match self {
            Outcome::Ok(_) => "ok",
            Outcome::ErrData => "err_data_too_big",
            Outcome::ErrVersion => "err_version_too_small",
            Outcome::Panic(_) => "panic",
        }
    }
}

thread_local! {
    static LAST_PANIC: RefCell<String> = RefCell::new(String::new());
}

/// Silences the default panic printer and remembers the message per thread
pub fn install_panic_hook() {
    std::panic::set_hook(Box::new(|info| {
        let msg = if let Some(s) = info.payload().downcast_ref::<&str>() {
            s.to_string()
        } else if let Some(s) = info.payload().downcast_ref::<String>() {
            s.clone()
        } else {
            "<non-string panic>".to_string()
        };
        let loc = info
            .location()
            .map(|l| format!("{}:{}", l.file(), l.line()))
            .unwrap_or_default();
        LAST_PANIC.with(|p| *p.borrow_mut() = format!("{} at {}", msg, loc));
    }));
}

pub fn last_panic() -> String {
    LAST_PANIC.with(|p| p.borrow().clone())
}

/// Runs `f` under catch_unwind; Err carries the panic message
pub fn guarded<T>(f: impl FnOnce() -> T) -> Result<T, String> {
    match catch_unwind(AssertUnwindSafe(f)) {
        Ok(v) => Ok(v),
        Err(_) => Err(last_panic()),
    }
}

pub fn classify(r: Result<QRCode, fast_qr::qr::QRCodeError>) -> Outcome {
    match r {
        Ok(q) => Outcome::Ok(Box::new(q)),
        Err(fast_qr::qr::QRCodeError::EncodedData) => Outcome::ErrData,
        Err(fast_qr::qr::QRCodeError::SpecifiedVersion) => Outcome::ErrVersion,
    }
}

/// The input as the caller's container: 72 = a Vec with 9000 bytes of spare capacity, 73 = a Vec grown by pushes
/// (capacity left wherever doubling put it), 74 = a String when the bytes are UTF-8 (else a Vec cut to size from a boxed
/// slice); anything else = an exact Vec. Same bytes in every case.
pub fn deliver(input: &[u8], order: u8) -> QRBuilder {
    match order {
        72 => {
            let mut v = Vec::with_capacity(input.len() + 9000);
            v.extend_from_slice(input);
            QRBuilder::new(v)
        }
        73 => {
            let mut v = Vec::new();
            for &b in input {
                v.push(b);
            }
            QRBuilder::new(v)
        }
        74 => match std::str::from_utf8(input) {
            Ok(s) => QRBuilder::new(s.to_string()),
            Err(_) => QRBuilder::new(input.to_vec().into_boxed_slice().into_vec()),
        },
        _ => QRBuilder::new(input.to_vec()),
    }
}

/// One trace: new -> setters (fixed order mode, ecl, version, mask) -> build
pub fn build(input: &[u8], o: &Opts) -> Outcome {
    match guarded(|| {
        let mut b = deliver(input, o.order);
        o.apply(&mut b);
        b.build()
    }) {
        Ok(r) => classify(r),
        Err(msg) => Outcome::Panic(msg),
    }
}

pub fn values(q: &QRCode) -> Vec<bool> {
    let n = q.size;
    q.data[..n * n].iter().map(|m| m.value()).collect()
}

pub fn type_idx(t: ModuleType) -> u8 {
    match t {
        ModuleType::Data => 0,
        ModuleType::FinderPattern => 1,
        ModuleType::Alignment => 2,
        ModuleType::Timing => 3,
        ModuleType::Format => 4,
        ModuleType::Version => 5,
        ModuleType::DarkModule => 6,
        ModuleType::Empty => 7,
    }
}

/// digest of everything observable on a QRCode: all 177*177 raw module bytes, size, four fields
pub fn digest(q: &QRCode) -> u64 {
    let mut h = crate::util::Fnv::new();
    let raw: Vec<u8> = q.data.iter().map(|m| m.0).collect();
    h.add(&raw);
    h.add_u64(q.size as u64);
    h.add_u64(q.version.map_or(99, |v| v as u64));
    h.add_u64(q.ecl.map_or(99, |e| ecl_idx(e) as u64));
    h.add_u64(q.mask.map_or(99, |k| k as u64));
    h.add_u64(q.mode.map_or(99, |m| mode_idx(m) as u64));
    h.get()
}

pub fn outcome_digest(o: &Outcome) -> u64 {
    match o {
        Outcome::Ok(q) => digest(q),
        Outcome::ErrData => 1,
        Outcome::ErrVersion => 2,
        Outcome::Panic(_) => 3,
    }
}

pub fn case_json(input: &[u8], o: &Opts) -> Value {
    json!({"kind": "build", "input_hex": crate::util::hex(input), "input_len": input.len(),
           "input_show": crate::util::show(input), "opts": o.to_json()})
}

pub fn case_from_json(v: &Value) -> Option<(Vec<u8>, Opts)> {
    let input = crate::util::unhex(v.get("input_hex")?.as_str()?)?;
    let o = Opts::from_json(v.get("opts")?)?;
    Some((input, o))
}
