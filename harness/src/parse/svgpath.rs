//! SVG path data interpreter: splits `d` into sub-paths and computes each sub-path's bounding box.
//! Lines exactly; arcs flattened into 48 segments; Bezier curves bounded by their control points.

#[derive(Debug, Clone)]
pub struct SubPath {
    pub start: (f64, f64),
    pub minx: f64,
    pub miny: f64,
    pub maxx: f64,
    pub maxy: f64,
    pub segments: usize,
    pub closed: bool,
}

impl SubPath {
    fn new(p: (f64, f64)) -> Self {
        SubPath { start: p, minx: p.0, miny: p.1, maxx: p.0, maxy: p.1, segments: 0, closed: false }
    }
    fn add(&mut self, p: (f64, f64)) {
        self.minx = self.minx.min(p.0);
        self.miny = self.miny.min(p.1);
        self.maxx = self.maxx.max(p.0);
        self.maxy = self.maxy.max(p.1);
    }
    pub fn width(&self) -> f64 {
        self.maxx - self.minx
    }
    pub fn height(&self) -> f64 {
        self.maxy - self.miny
    }
    pub fn centre(&self) -> (f64, f64) {
        ((self.minx + self.maxx) / 2.0, (self.miny + self.maxy) / 2.0)
    }
}

struct T<'a> {
    s: &'a [u8],
    i: usize,
}

impl<'a> T<'a> {
    fn skip_sep(&mut self) {
        while self.i < self.s.len() && matches!(self.s[self.i], b' ' | b'\t' | b'\n' | b'\r' | b',') {
            self.i += 1;
        }
    }
    fn at_number(&mut self) -> bool {
        self.skip_sep();
        self.i < self.s.len() && (self.s[self.i].is_ascii_digit() || matches!(self.s[self.i], b'-' | b'+' | b'.'))
    }
    fn number(&mut self) -> Result<f64, String> {
        self.skip_sep();
        let st = self.i;
        if self.i < self.s.len() && matches!(self.s[self.i], b'-' | b'+') {
            self.i += 1;
        }
        let mut digits = 0;
        while self.i < self.s.len() && self.s[self.i].is_ascii_digit() {
            self.i += 1;
            digits += 1;
        }
        if self.i < self.s.len() && self.s[self.i] == b'.' {
            self.i += 1;
            while self.i < self.s.len() && self.s[self.i].is_ascii_digit() {
                self.i += 1;
                digits += 1;
            }
        }
        if digits == 0 {
            return Err(format!("expected a number at offset {} of path data", st));
        }
        if self.i < self.s.len() && matches!(self.s[self.i], b'e' | b'E') {
            let save = self.i;
            self.i += 1;
            if self.i < self.s.len() && matches!(self.s[self.i], b'-' | b'+') {
                self.i += 1;
            }
            let mut ed = 0;
            while self.i < self.s.len() && self.s[self.i].is_ascii_digit() {
                self.i += 1;
                ed += 1;
            }
            if ed == 0 {
                self.i = save;
            }
        }
        std::str::from_utf8(&self.s[st..self.i]).unwrap().parse::<f64>().map_err(|e| format!("bad number at offset {}: {}", st, e))
    }
    fn flag(&mut self) -> Result<bool, String> {
        self.skip_sep();
        match self.s.get(self.i) {
            Some(b'0') => {
                self.i += 1;
                Ok(false)
            }
            Some(b'1') => {
                self.i += 1;
                Ok(true)
            }
            _ => Err(format!("expected an arc flag at offset {}", self.i)),
        }
    }
}

fn arc_points(p0: (f64, f64), rx: f64, ry: f64, phi_deg: f64, large: bool, sweep: bool, p1: (f64, f64)) -> Vec<(f64, f64)> {
    // SVG implementation notes F.6.5 / F.6.6
    if (p0.0 - p1.0).abs() < 1e-12 && (p0.1 - p1.1).abs() < 1e-12 {
        return vec![];
    }
    let (mut rx, mut ry) = (rx.abs(), ry.abs());
    if rx == 0.0 || ry == 0.0 {
        return vec![p1];
    }
    let phi = phi_deg.to_radians();
    let (c, s) = (phi.cos(), phi.sin());
    let dx = (p0.0 - p1.0) / 2.0;
    let dy = (p0.1 - p1.1) / 2.0;
    let x1 = c * dx + s * dy;
    let y1 = -s * dx + c * dy;
    let lam = x1 * x1 / (rx * rx) + y1 * y1 / (ry * ry);
    if lam > 1.0 {
        rx *= lam.sqrt();
        ry *= lam.sqrt();
    }
    let num = rx * rx * ry * ry - rx * rx * y1 * y1 - ry * ry * x1 * x1;
    let den = rx * rx * y1 * y1 + ry * ry * x1 * x1;
    let mut k = (num / den).max(0.0).sqrt();
    if large == sweep {
        k = -k;
    }
    let cxp = k * rx * y1 / ry;
    let cyp = -k * ry * x1 / rx;
    let cx = c * cxp - s * cyp + (p0.0 + p1.0) / 2.0;
    let cy = s * cxp + c * cyp + (p0.1 + p1.1) / 2.0;
    let ang = |ux: f64, uy: f64, vx: f64, vy: f64| -> f64 {
        let d = (ux * vx + uy * vy) / ((ux * ux + uy * uy).sqrt() * (vx * vx + vy * vy).sqrt());
        let a = d.clamp(-1.0, 1.0).acos();
        if ux * vy - uy * vx < 0.0 {
            -a
        } else {
            a
        }
    };
    let th1 = ang(1.0, 0.0, (x1 - cxp) / rx, (y1 - cyp) / ry);
    let mut dth = ang((x1 - cxp) / rx, (y1 - cyp) / ry, (-x1 - cxp) / rx, (-y1 - cyp) / ry);
    if !sweep && dth > 0.0 {
        dth -= 2.0 * std::f64::consts::PI;
    } else if sweep && dth < 0.0 {
        dth += 2.0 * std::f64::consts::PI;
    }
    let n = 48;
    (1..=n)
        .map(|i| {
            let t = th1 + dth * i as f64 / n as f64;
            let (ct, st) = (t.cos(), t.sin());
            (cx + c * rx * ct - s * ry * st, cy + s * rx * ct + c * ry * st)
        })
        .collect()
}

/// Interprets path data; returns the sub-paths in order
pub fn subpaths(d: &str) -> Result<Vec<SubPath>, String> {
    let mut t = T { s: d.as_bytes(), i: 0 };
    let mut out: Vec<SubPath> = vec![];
    let mut cur = (0.0f64, 0.0f64);
    let mut start = (0.0f64, 0.0f64);
    let mut cmd: Option<u8> = None;
    let mut open = false; // a sub-path is being built
    loop {
        t.skip_sep();
        if t.i >= t.s.len() {
            break;
        }
        let c = t.s[t.i];
        let mut first = false;
        if c.is_ascii_alphabetic() {
            cmd = Some(c);
            t.i += 1;
            first = true;
            if c == b'Z' || c == b'z' {
                if let Some(sp) = out.last_mut() {
                    if open {
                        sp.closed = true;
                        sp.segments += 1;
                    }
                }
                cur = start;
                // after a closepath the next drawing command starts a new sub-path at `start`
                open = false;
                continue;
            }
        } else if cmd.is_none() {
            return Err(format!("path data does not start with a command (offset {})", t.i));
        } else if !t.at_number() {
            return Err(format!("unexpected character {:?} at offset {}", c as char, t.i));
        }
        let mut c = cmd.unwrap();
        // implicit repetition of moveto is lineto
        if !first && (c == b'M' || c == b'm') {
            c = if c == b'M' { b'L' } else { b'l' };
        }
        let rel = c.is_ascii_lowercase();
        let base = if rel { cur } else { (0.0, 0.0) };
        match c.to_ascii_uppercase() {
            b'M' => {
                let x = t.number()?;
                let y = t.number()?;
                cur = (base.0 + x, base.1 + y);
                start = cur;
                out.push(SubPath::new(cur));
                open = true;
                continue;
            }
            _ => {}
        }
        if !open {
            // drawing after closepath (or before any moveto): a new sub-path starting at the current point
            if out.is_empty() && c.to_ascii_uppercase() != b'M' {
                return Err("path data must begin with a moveto".to_string());
            }
            out.push(SubPath::new(cur));
            start = cur;
            open = true;
        }
        let sp = out.last_mut().unwrap();
        match c.to_ascii_uppercase() {
            b'L' => {
                let x = t.number()?;
                let y = t.number()?;
                cur = (base.0 + x, base.1 + y);
                sp.add(cur);
                sp.segments += 1;
            }
            b'H' => {
                let x = t.number()?;
                cur = (if rel { cur.0 + x } else { x }, cur.1);
                sp.add(cur);
                sp.segments += 1;
            }
            b'V' => {
                let y = t.number()?;
                cur = (cur.0, if rel { cur.1 + y } else { y });
                sp.add(cur);
                sp.segments += 1;
            }
            b'A' => {
                let rx = t.number()?;
                let ry = t.number()?;
                let rot = t.number()?;
                let large = t.flag()?;
                let sweep = t.flag()?;
                let x = t.number()?;
                let y = t.number()?;
                let p1 = (base.0 + x, base.1 + y);
                for p in arc_points(cur, rx, ry, rot, large, sweep, p1) {
                    sp.add(p);
                }
                cur = p1;
                sp.add(cur);
                sp.segments += 1;
            }
            b'C' | b'S' | b'Q' | b'T' => {
                let n = match c.to_ascii_uppercase() {
                    b'C' => 3,
                    b'S' | b'Q' => 2,
                    _ => 1,
                };
                let mut last = cur;
                for _ in 0..n {
                    let x = t.number()?;
                    let y = t.number()?;
                    last = (base.0 + x, base.1 + y);
                    sp.add(last);
                }
                cur = last;
                sp.segments += 1;
            }
            other => return Err(format!("unsupported path command {:?}", other as char)),
        }
    }
    Ok(out)
}

pub fn selftest() -> Result<(), String> {
    let close = |a: f64, b: f64| (a - b).abs() < 1e-6;
    let sp = subpaths("M5,4h1v1h-1M7,9h1v1h-1").map_err(|e| format!("svgpath selftest: {}", e))?;
    if sp.len() != 2 || !close(sp[0].minx, 5.0) || !close(sp[0].maxx, 6.0) || !close(sp[0].maxy, 5.0) || !close(sp[1].minx, 7.0) {
        return Err(format!("svgpath selftest: square {:?}", sp));
    }
    let sp = subpaths("M6,4.5a.5,.5 0 1,1 0,-.1").map_err(|e| format!("svgpath selftest: {}", e))?;
    if sp.len() != 1 || (sp[0].width() - 1.0).abs() > 0.02 || (sp[0].height() - 1.0).abs() > 0.02 || (sp[0].centre().0 - 5.5).abs() > 0.06 {
        return Err(format!("svgpath selftest: circle {:?}", sp));
    }
    let sp = subpaths("M5.2,4.2 5.8,4.2 5.8,4.8 5.2,4.8z").map_err(|e| format!("svgpath selftest: {}", e))?;
    if sp.len() != 1 || !close(sp[0].minx, 5.2) || !close(sp[0].maxy, 4.8) || !sp[0].closed {
        return Err(format!("svgpath selftest: rounded {:?}", sp));
    }
    let sp = subpaths("M5.5,4l.5,.5l-.5,.5l-.5,-.5z").map_err(|e| format!("svgpath selftest: {}", e))?;
    if sp.len() != 1 || !close(sp[0].minx, 5.0) || !close(sp[0].maxx, 6.0) || !close(sp[0].miny, 4.0) || !close(sp[0].maxy, 5.0) {
        return Err(format!("svgpath selftest: diamond {:?}", sp));
    }
    if subpaths("h1").is_ok() || subpaths("M1").is_ok() || subpaths("M1,1x").is_ok() {
        return Err("svgpath selftest: malformed data accepted".to_string());
    }
    Ok(())
}
