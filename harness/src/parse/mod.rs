pub mod png;
pub mod svgpath;
pub mod xml;

pub fn selftest() -> Result<(), String> {
    xml::selftest()?;
    svgpath::selftest()?;
    png::selftest()?;
    Ok(())
}
