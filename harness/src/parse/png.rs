//! Independent PNG reader: chunk CRCs, zlib/deflate (own inflate), Adler-32, scan-line unfiltering.
//! Supports what the subject can emit: 8-bit RGBA / RGB / grey / grey+alpha, non-interlaced.

pub struct Image {
    pub width: usize,
    pub height: usize,
    /// RGBA, 4 bytes per pixel, straight (non-premultiplied) alpha
    pub rgba: Vec<u8>,
}

fn crc32(data: &[u8]) -> u32 {
    static T: std::sync::OnceLock<[u32; 256]> = std::sync::OnceLock::new();
    let t = T.get_or_init(|| {
        let mut t = [0u32; 256];
        for n in 0..256u32 {
            let mut c = n;
            for _ in 0..8 {
                c = if c & 1 != 0 { 0xEDB88320 ^ (c >> 1) } else { c >> 1 };
            }
            t[n as usize] = c;
        }
        t
    });
    let mut c = 0xFFFF_FFFFu32;
    for &b in data {
        c = t[((c ^ b as u32) & 0xFF) as usize] ^ (c >> 8);
    }
    c ^ 0xFFFF_FFFF
}

fn adler32(data: &[u8]) -> u32 {
    let (mut a, mut b) = (1u32, 0u32);
    for chunk in data.chunks(5000) {
        for &x in chunk {
            a += x as u32;
            b += a;
        }
        a %= 65521;
        b %= 65521;
    }
    (b << 16) | a
}

struct Bits<'a> {
    s: &'a [u8],
    pos: usize,
    bit: u32,
    nbits: u32,
}

impl<'a> Bits<'a> {
    fn need(&mut self, n: u32) -> Result<(), String> {
        while self.nbits < n {
            let b = *self.s.get(self.pos).ok_or("deflate stream truncated")?;
            self.pos += 1;
            self.bit |= (b as u32) << self.nbits;
            self.nbits += 8;
        }
        Ok(())
    }
    fn bits(&mut self, n: u32) -> Result<u32, String> {
        if n == 0 {
            return Ok(0);
        }
        self.need(n)?;
        let v = self.bit & ((1u32 << n) - 1);
        self.bit >>= n;
        self.nbits -= n;
        Ok(v)
    }
}

struct Huff {
    count: [u16; 16],
    symbol: Vec<u16>,
}

impl Huff {
    fn new(lengths: &[u8]) -> Result<Huff, String> {
        let mut count = [0u16; 16];
        for &l in lengths {
            count[l as usize] += 1;
        }
        count[0] = 0;
        // over-subscription check
        let mut left = 1i32;
        for len in 1..16 {
            left <<= 1;
            left -= count[len] as i32;
            if left < 0 {
                return Err("over-subscribed Huffman code".into());
            }
        }
        let mut offs = [0u16; 16];
        for len in 1..15 {
            offs[len + 1] = offs[len] + count[len];
        }
        let mut symbol = vec![0u16; lengths.len()];
        for (sym, &l) in lengths.iter().enumerate() {
            if l != 0 {
                symbol[offs[l as usize] as usize] = sym as u16;
                offs[l as usize] += 1;
            }
        }
        Ok(Huff { count, symbol })
    }
    fn decode(&self, b: &mut Bits) -> Result<u16, String> {
        let (mut code, mut first, mut index) = (0i32, 0i32, 0i32);
        for len in 1..16 {
            code |= b.bits(1)? as i32;
            let count = self.count[len] as i32;
            if code - count < first {
                return Ok(self.symbol[(index + (code - first)) as usize]);
            }
            index += count;
            first += count;
            first <<= 1;
            code <<= 1;
        }
        Err("invalid Huffman code".into())
    }
}

const LBASE: [u16; 29] = [3, 4, 5, 6, 7, 8, 9, 10, 11, 13, 15, 17, 19, 23, 27, 31, 35, 43, 51, 59, 67, 83, 99, 115, 131, 163, 195, 227, 258];
const LEXT: [u8; 29] = [0, 0, 0, 0, 0, 0, 0, 0, 1, 1, 1, 1, 2, 2, 2, 2, 3, 3, 3, 3, 4, 4, 4, 4, 5, 5, 5, 5, 0];
const DBASE: [u16; 30] = [1, 2, 3, 4, 5, 7, 9, 13, 17, 25, 33, 49, 65, 97, 129, 193, 257, 385, 513, 769, 1025, 1537, 2049, 3073, 4097, 6145, 8193, 12289, 16385, 24577];
const DEXT: [u8; 30] = [0, 0, 0, 0, 1, 1, 2, 2, 3, 3, 4, 4, 5, 5, 6, 6, 7, 7, 8, 8, 9, 9, 10, 10, 11, 11, 12, 12, 13, 13];

pub fn inflate(data: &[u8]) -> Result<Vec<u8>, String> {
    let mut b = Bits { s: data, pos: 0, bit: 0, nbits: 0 };
    let mut out: Vec<u8> = vec![];
    loop {
        let last = b.bits(1)?;
        let typ = b.bits(2)?;
        match typ {
            0 => {
                b.bit = 0;
                b.nbits = 0;
                if b.pos + 4 > data.len() {
                    return Err("stored block truncated".into());
                }
                let len = data[b.pos] as usize | (data[b.pos + 1] as usize) << 8;
                let nlen = data[b.pos + 2] as usize | (data[b.pos + 3] as usize) << 8;
                if len != (!nlen & 0xFFFF) {
                    return Err("stored block length check failed".into());
                }
                b.pos += 4;
                if b.pos + len > data.len() {
                    return Err("stored block truncated".into());
                }
                out.extend_from_slice(&data[b.pos..b.pos + len]);
                b.pos += len;
            }
            1 | 2 => {
                let (lit, dist) = if typ == 1 {
                    let mut l = [0u8; 288];
                    for (i, x) in l.iter_mut().enumerate() {
                        *x = if i < 144 { 8 } else if i < 256 { 9 } else if i < 280 { 7 } else { 8 };
                    }
                    (Huff::new(&l)?, Huff::new(&[5u8; 30])?)
                } else {
                    let nlen = b.bits(5)? as usize + 257;
                    let ndist = b.bits(5)? as usize + 1;
                    let ncode = b.bits(4)? as usize + 4;
                    if nlen > 286 || ndist > 30 {
                        return Err("bad dynamic block header".into());
                    }
                    const ORDER: [usize; 19] = [16, 17, 18, 0, 8, 7, 9, 6, 10, 5, 11, 4, 12, 3, 13, 2, 14, 1, 15];
                    let mut cl = [0u8; 19];
                    for &o in ORDER.iter().take(ncode) {
                        cl[o] = b.bits(3)? as u8;
                    }
                    let clh = Huff::new(&cl)?;
                    let mut lengths = vec![0u8; nlen + ndist];
                    let mut i = 0;
                    while i < nlen + ndist {
                        let sym = clh.decode(&mut b)?;
                        if sym < 16 {
                            lengths[i] = sym as u8;
                            i += 1;
                        } else {
                            let (prev, rep) = match sym {
                                16 => {
                                    if i == 0 {
                                        return Err("repeat with no previous length".into());
                                    }
                                    (lengths[i - 1], 3 + b.bits(2)? as usize)
                                }
                                17 => (0, 3 + b.bits(3)? as usize),
                                _ => (0, 11 + b.bits(7)? as usize),
                            };
                            if i + rep > nlen + ndist {
                                return Err("too many code lengths".into());
                            }
                            for _ in 0..rep {
                                lengths[i] = prev;
                                i += 1;
                            }
                        }
                    }
                    if lengths[256] == 0 {
                        return Err("no end-of-block code".into());
                    }
                    (Huff::new(&lengths[..nlen])?, Huff::new(&lengths[nlen..])?)
                };
                loop {
                    let sym = lit.decode(&mut b)? as usize;
                    if sym < 256 {
                        out.push(sym as u8);
                    } else if sym == 256 {
                        break;
                    } else {
                        let s = sym - 257;
                        if s >= 29 {
                            return Err("invalid length symbol".into());
                        }
                        let len = LBASE[s] as usize + b.bits(LEXT[s] as u32)? as usize;
                        let ds = dist.decode(&mut b)? as usize;
                        if ds >= 30 {
                            return Err("invalid distance symbol".into());
                        }
                        let d = DBASE[ds] as usize + b.bits(DEXT[ds] as u32)? as usize;
                        if d > out.len() {
                            return Err("distance too far back".into());
                        }
                        let st = out.len() - d;
                        for k in 0..len {
                            let x = out[st + k];
                            out.push(x);
                        }
                    }
                }
            }
            _ => return Err("invalid block type".into()),
        }
        if last == 1 {
            break;
        }
    }
    Ok(out)
}

pub fn zlib_decompress(data: &[u8]) -> Result<Vec<u8>, String> {
    if data.len() < 6 {
        return Err("zlib stream too short".into());
    }
    let (cmf, flg) = (data[0], data[1]);
    if cmf & 0x0F != 8 || ((cmf as u16) << 8 | flg as u16) % 31 != 0 || flg & 0x20 != 0 {
        return Err("bad zlib header".into());
    }
    let out = inflate(&data[2..data.len() - 4])?;
    let want = u32::from_be_bytes([data[data.len() - 4], data[data.len() - 3], data[data.len() - 2], data[data.len() - 1]]);
    if adler32(&out) != want {
        return Err("Adler-32 mismatch".into());
    }
    Ok(out)
}

pub fn decode(png: &[u8]) -> Result<Image, String> {
    if png.len() < 8 || png[..8] != [0x89, b'P', b'N', b'G', 0x0D, 0x0A, 0x1A, 0x0A] {
        return Err("not a PNG signature".into());
    }
    let mut i = 8;
    let mut ihdr: Option<(usize, usize, u8, u8)> = None;
    let mut idat: Vec<u8> = vec![];
    let mut seen_end = false;
    let mut first = true;
    while i < png.len() {
        if seen_end {
            return Err("data after IEND".into());
        }
        if i + 12 > png.len() {
            return Err("truncated chunk".into());
        }
        let len = u32::from_be_bytes([png[i], png[i + 1], png[i + 2], png[i + 3]]) as usize;
        if i + 12 + len > png.len() {
            return Err("chunk length beyond end of file".into());
        }
        let typ = &png[i + 4..i + 8];
        let body = &png[i + 8..i + 8 + len];
        let crc = u32::from_be_bytes([png[i + 8 + len], png[i + 9 + len], png[i + 10 + len], png[i + 11 + len]]);
        if crc32(&png[i + 4..i + 8 + len]) != crc {
            return Err(format!("CRC mismatch in chunk {}", String::from_utf8_lossy(typ)));
        }
        if first && typ != b"IHDR" {
            return Err("first chunk is not IHDR".into());
        }
        first = false;
        match typ {
            b"IHDR" => {
                if len != 13 {
                    return Err("bad IHDR length".into());
                }
                let w = u32::from_be_bytes([body[0], body[1], body[2], body[3]]) as usize;
                let h = u32::from_be_bytes([body[4], body[5], body[6], body[7]]) as usize;
                if body[8] != 8 {
                    return Err(format!("bit depth {} not supported by the reader", body[8]));
                }
                if body[10] != 0 || body[11] != 0 || body[12] != 0 {
                    return Err("compression/filter/interlace method not supported by the reader".into());
                }
                ihdr = Some((w, h, body[9], body[8]));
            }
            b"IDAT" => idat.extend_from_slice(body),
            b"IEND" => seen_end = true,
            _ => {
                if typ[0] & 0x20 == 0 {
                    return Err(format!("unknown critical chunk {}", String::from_utf8_lossy(typ)));
                }
            }
        }
        i += 12 + len;
    }
    if !seen_end {
        return Err("no IEND chunk".into());
    }
    let (w, h, ct, _) = ihdr.ok_or("no IHDR")?;
    let ch = match ct {
        0 => 1,
        2 => 3,
        4 => 2,
        6 => 4,
        _ => return Err(format!("colour type {} not supported by the reader", ct)),
    };
    let raw = zlib_decompress(&idat)?;
    let stride = w * ch;
    if raw.len() != h * (stride + 1) {
        return Err(format!("decompressed size {} does not match {}x{}x{}", raw.len(), w, h, ch));
    }
    let mut px = vec![0u8; h * stride];
    for y in 0..h {
        let ft = raw[y * (stride + 1)];
        let line = &raw[y * (stride + 1) + 1..(y + 1) * (stride + 1)];
        for x in 0..stride {
            let a = if x >= ch { px[y * stride + x - ch] as i32 } else { 0 };
            let b = if y > 0 { px[(y - 1) * stride + x] as i32 } else { 0 };
            let c = if x >= ch && y > 0 { px[(y - 1) * stride + x - ch] as i32 } else { 0 };
            let pred = match ft {
                0 => 0,
                1 => a,
                2 => b,
                3 => (a + b) / 2,
                4 => {
                    let p = a + b - c;
                    let (pa, pb, pc) = ((p - a).abs(), (p - b).abs(), (p - c).abs());
                    if pa <= pb && pa <= pc {
                        a
                    } else if pb <= pc {
                        b
                    } else {
                        c
                    }
                }
                _ => return Err(format!("invalid filter type {} on line {}", ft, y)),
            };
            px[y * stride + x] = (line[x] as i32 + pred) as u8;
        }
    }
    let mut rgba = vec![0u8; w * h * 4];
    for p in 0..w * h {
        let s = &px[p * ch..p * ch + ch];
        let (r, g, b, a) = match ch {
            1 => (s[0], s[0], s[0], 255),
            2 => (s[0], s[0], s[0], s[1]),
            3 => (s[0], s[1], s[2], 255),
            _ => (s[0], s[1], s[2], s[3]),
        };
        rgba[p * 4..p * 4 + 4].copy_from_slice(&[r, g, b, a]);
    }
    Ok(Image { width: w, height: h, rgba })
}

pub fn selftest() -> Result<(), String> {
    // a 2x1 RGBA image in a stored deflate block, assembled by hand
    let raw = [0u8, 255, 0, 0, 255, 0, 0, 255, 128];
    let mut z = vec![0x78, 0x01, 0x01, raw.len() as u8, 0, !(raw.len() as u8), 0xFF];
    z.extend_from_slice(&raw);
    z.extend_from_slice(&adler32(&raw).to_be_bytes());
    let mut png = vec![0x89, b'P', b'N', b'G', 0x0D, 0x0A, 0x1A, 0x0A];
    let mut chunk = |t: &[u8], body: &[u8]| {
        png.extend_from_slice(&(body.len() as u32).to_be_bytes());
        let mut c = t.to_vec();
        c.extend_from_slice(body);
        png.extend_from_slice(&c);
        png.extend_from_slice(&crc32(&c).to_be_bytes());
    };
    chunk(b"IHDR", &[0, 0, 0, 2, 0, 0, 0, 1, 8, 6, 0, 0, 0]);
    chunk(b"IDAT", &z);
    chunk(b"IEND", &[]);
    let img = decode(&png).map_err(|e| format!("png selftest: {}", e))?;
    if img.width != 2 || img.height != 1 || img.rgba != [255, 0, 0, 255, 0, 0, 255, 128] {
        return Err("png selftest: wrong pixels".into());
    }
    let mut bad = png.clone();
    let l = bad.len();
    bad[l - 20] ^= 1;
    if decode(&bad).is_ok() {
        return Err("png selftest: corrupted file accepted".into());
    }
    // fixed-Huffman stream: "abc" compressed by hand-known bytes (zlib level 1 output of b"aaaaaaaaaa")
    let fixed = [0x78u8, 0x01, 0x4b, 0x4c, 0x84, 0x01, 0x00, 0x14, 0xe1, 0x03, 0xcb];
    match zlib_decompress(&fixed) {
        Ok(v) if v == b"aaaaaaaaaa" => {}
        other => return Err(format!("png selftest: fixed Huffman block: {:?}", other.map(|v| v.len()))),
    }
    Ok(())
}
