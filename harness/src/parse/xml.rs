//! A strict parser for the XML 1.0 subset an SVG document of this kind may use. It exists to decide
//! well-formedness independently of the crate and of usvg/roxmltree: any deviation is an error.

#[derive(Debug, Clone)]
pub struct Element {
    pub name: String,
    /// attributes in document order, values entity-decoded
    pub attrs: Vec<(String, String)>,
    pub children: Vec<Element>,
    /// concatenated character data directly inside this element (entity-decoded)
    pub text: String,
}

impl Element {
    pub fn attr(&self, name: &str) -> Option<&str> {
        self.attrs.iter().find(|(k, _)| k == name).map(|(_, v)| v.as_str())
    }
}

struct P<'a> {
    s: &'a [u8],
    i: usize,
}

fn is_name_start(c: u8) -> bool {
    c.is_ascii_alphabetic() || c == b'_' || c == b':' || c >= 0x80
}

fn is_name_char(c: u8) -> bool {
    is_name_start(c) || c.is_ascii_digit() || c == b'-' || c == b'.'
}

impl<'a> P<'a> {
    fn err<T>(&self, msg: &str) -> Result<T, String> {
        let lo = self.i.saturating_sub(30);
        let hi = (self.i + 30).min(self.s.len());
        Err(format!("{} at byte {} (near {:?})", msg, self.i, String::from_utf8_lossy(&self.s[lo..hi])))
    }
    fn peek(&self) -> Option<u8> {
        self.s.get(self.i).copied()
    }
    fn starts(&self, t: &str) -> bool {
        self.s[self.i..].starts_with(t.as_bytes())
    }
    fn ws(&mut self) -> usize {
        let st = self.i;
        while let Some(c) = self.peek() {
            if c == b' ' || c == b'\t' || c == b'\n' || c == b'\r' {
                self.i += 1;
            } else {
                break;
            }
        }
        self.i - st
    }
    fn name(&mut self) -> Result<String, String> {
        let st = self.i;
        match self.peek() {
            Some(c) if is_name_start(c) => self.i += 1,
            _ => return self.err("expected a name"),
        }
        while let Some(c) = self.peek() {
            if is_name_char(c) {
                self.i += 1;
            } else {
                break;
            }
        }
        Ok(String::from_utf8_lossy(&self.s[st..self.i]).into_owned())
    }
    /// parses a reference starting at '&', appends the decoded character
    fn reference(&mut self, out: &mut String) -> Result<(), String> {
        debug_assert_eq!(self.peek(), Some(b'&'));
        let st = self.i;
        self.i += 1;
        let semi = match self.s[self.i..].iter().take(12).position(|&c| c == b';') {
            Some(p) => self.i + p,
            None => {
                self.i = st;
                return self.err("'&' does not start an entity or character reference");
            }
        };
        let body = &self.s[self.i..semi];
        let ch = match body {
            b"amp" => '&',
            b"lt" => '<',
            b"gt" => '>',
            b"quot" => '"',
            b"apos" => '\'',
            _ if body.starts_with(b"#x") && body.len() > 2 && body[2..].iter().all(|c| c.is_ascii_hexdigit()) => {
                let v = u32::from_str_radix(std::str::from_utf8(&body[2..]).unwrap(), 16).map_err(|e| e.to_string())?;
                char::from_u32(v).ok_or("invalid character reference")?
            }
            _ if body.starts_with(b"#") && body.len() > 1 && body[1..].iter().all(|c| c.is_ascii_digit()) => {
                let v: u32 = std::str::from_utf8(&body[1..]).unwrap().parse().map_err(|_| "bad character reference".to_string())?;
                char::from_u32(v).ok_or("invalid character reference")?
            }
            _ => {
                self.i = st;
                return self.err("reference to an undeclared entity");
            }
        };
        let legal = matches!(ch, '\t' | '\n' | '\r') || (ch >= ' ' && ch != '\u{FFFE}' && ch != '\u{FFFF}');
        if !legal {
            self.i = st;
            return self.err("character reference to a character not allowed in XML");
        }
        out.push(ch);
        self.i = semi + 1;
        Ok(())
    }
    fn attr_value(&mut self) -> Result<String, String> {
        let q = match self.peek() {
            Some(c) if c == b'"' || c == b'\'' => c,
            _ => return self.err("attribute value must be quoted"),
        };
        self.i += 1;
        let mut out = String::new();
        let mut raw: Vec<u8> = vec![];
        loop {
            match self.peek() {
                None => return self.err("unterminated attribute value"),
                Some(c) if c == q => {
                    self.i += 1;
                    break;
                }
                Some(b'<') => return self.err("'<' in attribute value"),
                Some(b'&') => {
                    out.push_str(&flush(&mut raw, self)?);
                    self.reference(&mut out)?;
                }
                Some(c) => {
                    if c < 0x20 && c != b'\t' && c != b'\n' && c != b'\r' {
                        return self.err("control character in attribute value");
                    }
                    raw.push(c);
                    self.i += 1;
                }
            }
        }
        out.push_str(&flush(&mut raw, self)?);
        Ok(out)
    }
    fn element(&mut self, depth: usize) -> Result<Element, String> {
        if depth > 64 {
            return self.err("nesting too deep");
        }
        if self.peek() != Some(b'<') {
            return self.err("expected '<'");
        }
        self.i += 1;
        let name = self.name()?;
        let mut attrs: Vec<(String, String)> = vec![];
        loop {
            let w = self.ws();
            match self.peek() {
                Some(b'/') => {
                    self.i += 1;
                    if self.peek() != Some(b'>') {
                        return self.err("expected '>' after '/'");
                    }
                    self.i += 1;
                    return Ok(Element { name, attrs, children: vec![], text: String::new() });
                }
                Some(b'>') => {
                    self.i += 1;
                    break;
                }
                Some(c) if is_name_start(c) => {
                    if w == 0 {
                        return self.err("attributes must be separated by white space");
                    }
                    let an = self.name()?;
                    self.ws();
                    if self.peek() != Some(b'=') {
                        return self.err("expected '=' after attribute name");
                    }
                    self.i += 1;
                    self.ws();
                    let av = self.attr_value()?;
                    if attrs.iter().any(|(k, _)| *k == an) {
                        return self.err(&format!("duplicate attribute {}", an));
                    }
                    attrs.push((an, av));
                }
                None => return self.err("unterminated start tag"),
                _ => return self.err("unexpected character in start tag"),
            }
        }
        // content
        let mut children = vec![];
        let mut text = String::new();
        let mut raw: Vec<u8> = vec![];
        loop {
            match self.peek() {
                None => return self.err(&format!("element <{}> is not closed", name)),
                Some(b'<') => {
                    text.push_str(&flush(&mut raw, self)?);
                    if self.starts("</") {
                        self.i += 2;
                        let en = self.name()?;
                        if en != name {
                            return self.err(&format!("end tag </{}> does not match <{}>", en, name));
                        }
                        self.ws();
                        if self.peek() != Some(b'>') {
                            return self.err("expected '>' in end tag");
                        }
                        self.i += 1;
                        return Ok(Element { name, attrs, children, text });
                    } else if self.starts("<!--") {
                        self.comment()?;
                    } else if self.starts("<![CDATA[") {
                        self.i += 9;
                        match find(&self.s[self.i..], b"]]>") {
                            Some(p) => {
                                text.push_str(&String::from_utf8_lossy(&self.s[self.i..self.i + p]));
                                self.i += p + 3;
                            }
                            None => return self.err("unterminated CDATA section"),
                        }
                    } else if self.starts("<?") || self.starts("<!") {
                        return self.err("processing instructions / declarations are not expected inside the document");
                    } else {
                        children.push(self.element(depth + 1)?);
                    }
                }
                Some(b'&') => {
                    text.push_str(&flush(&mut raw, self)?);
                    self.reference(&mut text)?;
                }
                Some(c) => {
                    if c < 0x20 && c != b'\t' && c != b'\n' && c != b'\r' {
                        return self.err("control character in content");
                    }
                    if c == b'>' && raw.ends_with(b"]]") {
                        return self.err("']]>' in content");
                    }
                    raw.push(c);
                    self.i += 1;
                }
            }
        }
    }
    fn comment(&mut self) -> Result<(), String> {
        self.i += 4;
        match find(&self.s[self.i..], b"--") {
            Some(p) => {
                self.i += p + 2;
                if self.peek() != Some(b'>') {
                    return self.err("'--' inside comment");
                }
                self.i += 1;
                Ok(())
            }
            None => self.err("unterminated comment"),
        }
    }
}

fn flush(raw: &mut Vec<u8>, p: &P) -> Result<String, String> {
    let s = String::from_utf8(std::mem::take(raw)).map_err(|_| format!("invalid UTF-8 before byte {}", p.i))?;
    Ok(s)
}

fn find(h: &[u8], n: &[u8]) -> Option<usize> {
    h.windows(n.len()).position(|w| w == n)
}

/// Parses a complete document: optional XML declaration, comments/white space, exactly one root element
pub fn parse(doc: &str) -> Result<Element, String> {
    let mut p = P { s: doc.as_bytes(), i: 0 };
    if p.starts("<?xml") {
        match find(&p.s[p.i..], b"?>") {
            Some(e) => p.i += e + 2,
            None => return p.err("unterminated XML declaration"),
        }
    }
    loop {
        p.ws();
        if p.starts("<!--") {
            p.comment()?;
        } else {
            break;
        }
    }
    let root = p.element(0)?;
    loop {
        p.ws();
        if p.starts("<!--") {
            p.comment()?;
        } else {
            break;
        }
    }
    if p.i != p.s.len() {
        return p.err("content after the root element");
    }
    Ok(root)
}

pub fn selftest() -> Result<(), String> {
    let ok = [
        r##"<svg viewBox="0 0 1 1" xmlns="http://www.w3.org/2000/svg"><rect width="1px" fill="#fff"/><path d="M0,0h1"/></svg>"##,
        r#"<a b="x &amp; y &lt; &#65; &#x42; &quot;'"/>"#,
        "<a b='\"'>t&gt;<c/> </a>",
    ];
    for d in ok {
        parse(d).map_err(|e| format!("xml selftest: well-formed document rejected: {}", e))?;
    }
    let e = parse(ok[1]).unwrap();
    if e.attr("b") != Some("x & y < A B \"'") {
        return Err(format!("xml selftest: entity decoding gives {:?}", e.attr("b")));
    }
    let bad = [
        r#"<a b="x & y"/>"#,
        r#"<a b="x < y"/>"#,
        r#"<a b="x"y"/>"#,
        r#"<a b="x" b="y"/>"#,
        r#"<a><b></a></b>"#,
        r#"<a>"#,
        r#"<a/><b/>"#,
        r#"<a b=x/>"#,
        r#"<a b="&foo;"/>"#,
        r#"<a b="1"c="2"/>"#,
        r#"<a b="&#0;"/>"#,
    ];
    for d in bad {
        if parse(d).is_ok() {
            return Err(format!("xml selftest: malformed document accepted: {}", d));
        }
    }
    Ok(())
}
