//! Shared enumeration spaces (DESIGN.md section 4). Every space is a finite, completely enumerated
//! list of cases; a case is one trace new -> setters -> build on the real builder.

use crate::refmodel as r;
use crate::subject::Opts;
use crate::util::Rng;

#[derive(Clone, Copy, PartialEq, Eq, Debug, Hash)]
pub enum Family {
    Ctr,
    Lo,
    Hi,
    Pad,
    /// byte mode: valid UTF-8 text made of 2-, 3- and 4-byte characters, padded with ASCII to the exact byte
    /// length (character count < byte count); the other modes: same as Ctr
    Utf8,
    /// mostly the minimum symbol (0x00 / '0') with a different symbol at every 13th position: blocks that begin with
    /// zero codewords, runs of 8 and more zeros followed by non-zero codewords, non-zero tails
    Sparse,
    Seeded(u64),
}

impl Family {
    pub fn name(&self) -> String {
        match self {
            Family::Ctr => "ctr".into(),
            Family::Lo => "lo".into(),
            Family::Hi => "hi".into(),
            Family::Pad => "pad".into(),
            Family::Utf8 => "utf8".into(),
            Family::Sparse => "sparse".into(),
            Family::Seeded(s) => format!("seeded({})", s),
        }
    }
}

/// Deterministic content of `len` symbols over the alphabet of mode `m`
pub fn content(f: Family, m: usize, len: usize) -> Vec<u8> {
    match f {
        Family::Ctr => (0..len)
            .map(|i| match m {
                0 => b'0' + (i % 10) as u8,
                1 => r::ALNUM[(7 * i + 3) % 45],
                _ => ((29 * i + len) % 256) as u8,
            })
            .collect(),
        Family::Lo => vec![[b'0', b'0', 0x00][m]; len],
        Family::Hi => vec![[b'9', b':', 0xFF][m]; len],
        Family::Pad => (0..len)
            .map(|i| match m {
                0 => [b'2', b'3', b'6', b'1', b'7'][i % 5], // digits of 236,17
                1 => [b'E', b'C', b'1', b'1'][i % 4],
                _ => [0xEC, 0x11][i % 2],
            })
            .collect(),
        Family::Sparse => (0..len)
            .map(|i| {
                let hit = i % 13 == 8;
                match m {
                    0 => if hit { b'7' } else { b'0' },
                    1 => if hit { b'Z' } else { b'0' },
                    _ => if hit { ((i * 7) % 255 + 1) as u8 } else { 0 },
                }
            })
            .collect(),
        Family::Utf8 => {
            if m != 2 {
                return content(Family::Ctr, m, len);
            }
            let chars = ["\u{e9}", "\u{20ac}", "\u{1d11e}", "\u{fc}", "\u{4e2d}"];
            let mut out: Vec<u8> = Vec::with_capacity(len);
            let mut i = 0;
            while out.len() + chars[i % chars.len()].len() <= len {
                out.extend_from_slice(chars[i % chars.len()].as_bytes());
                i += 1;
            }
            while out.len() < len {
                out.push(b'x');
            }
            out
        }
        Family::Seeded(seed) => {
            let mut rng = Rng::new(seed ^ ((m as u64) << 32) ^ (len as u64).wrapping_mul(0x9E37));
            (0..len)
                .map(|_| {
                    let x = rng.next();
                    match m {
                        0 => b'0' + (x % 10) as u8,
                        1 => r::ALNUM[(x % 45) as usize],
                        _ => (x >> 13) as u8,
                    }
                })
                .collect()
        }
    }
}

#[derive(Clone, Debug)]
pub enum Input {
    Fam(Family, u8, u32),
    Bytes(Vec<u8>),
}

#[derive(Clone, Debug)]
pub struct Case {
    pub input: Input,
    pub opts: Opts,
}

impl Case {
    pub fn bytes(&self) -> Vec<u8> {
        match &self.input {
            Input::Fam(f, m, len) => content(*f, *m as usize, *len as usize),
            Input::Bytes(b) => b.clone(),
        }
    }
    pub fn new(b: Vec<u8>, opts: Opts) -> Self {
        Case {
            input: Input::Bytes(b),
            opts,
        }
    }
}

pub struct Space {
    pub name: String,
    pub describe: String,
    pub cases: Vec<Case>,
    /// true when the list is the complete product described (no cap, no sampling)
    pub exhaustive: bool,
}

/// S_len: every length 0..=max_len x 3 modes x 4 levels, version and mask automatic.
/// The mode is left automatic when the automatic choice for this content is already `m`
/// (the ordinary user path) and forced otherwise, so each (mode, level, length) point is reached.
pub fn s_len(f: Family, max_len: usize) -> Space {
    s_len_tier(f, max_len, true)
}

/// lengths of the quick tier of S_len for one (mode, level): every length 0..=128, the
/// neighbourhood {cap-1, cap, cap+1} of all 40 capacity thresholds, and every 7th length
pub fn quick_lengths(m: usize, e: usize, max_len: usize) -> Vec<usize> {
    let mut l: Vec<usize> = (0..=128.min(max_len)).collect();
    for v in 1..=40 {
        let c = r::cap(v, e, m);
        l.extend([c.saturating_sub(1), c, c + 1]);
    }
    l.extend((0..=max_len).step_by(7));
    l.push(max_len);
    l.retain(|&x| x <= max_len);
    l.sort();
    l.dedup();
    l
}

pub fn s_len_tier(f: Family, max_len: usize, thorough: bool) -> Space {
    let mut cases = vec![];
    for m in 0..3usize {
        for e in 0..4usize {
            let lens: Vec<usize> = if thorough { (0..=max_len).collect() } else { quick_lengths(m, e, max_len) };
            for len in lens {
                let auto_is_m = r::auto_mode(&content(f, m, len)) == m;
                let mode = if auto_is_m { None } else { Some(m as u8) };
                cases.push(Case {
                    input: Input::Fam(f, m as u8, len as u32),
                    opts: Opts {
                        mode,
                        ecl: Some(e as u8),
                        version: None,
                        mask: None, order: 0 },
                });
            }
        }
    }
    Space {
        name: format!("S_len[{}]{}", f.name(), if thorough { "" } else { "/quick" }),
        describe: if thorough {
            format!("every length 0..={} x 3 modes x 4 levels, family {}, version+mask automatic", max_len, f.name())
        } else {
            format!("lengths 0..=128, all 40 capacity thresholds -1/0/+1, every 7th length up to {} x 3 modes x 4 levels, family {}, version+mask automatic (complete for that length set; the thorough tier enumerates every length)", max_len, f.name())
        },
        cases,
        exhaustive: true,
    }
}

/// S_cross: content of a denser class under a forced, less dense mode (digits forced to Alphanumeric or
/// Byte, alphanumeric text forced to Byte): the caller's mode, not the detected one, must drive capacity,
/// count width and packing. Every (content class, forced mode, level) x the lengths of S_len for the forced mode.
pub fn s_cross(thorough: bool) -> Space {
    let mut cases = vec![];
    for (cm, fm) in [(0usize, 1usize), (0, 2), (1, 2)] {
        for e in 0..4usize {
            let max_len = r::cap(40, e, fm) + 40;
            let lens: Vec<usize> = if thorough { (0..=max_len).collect() } else { quick_lengths(fm, e, max_len) };
            for len in lens {
                // forced versions: 40, and the gap between the smallest version for the content's own class and the
                // smallest for the forced mode (first of the gap, last of the gap = one too small, first that fits)
                let mut versions: Vec<Option<u8>> = vec![None];
                if len % 64 == 0 || len + 2 >= r::cap(40, e, fm) {
                    versions.push(Some(40));
                }
                if let (Some(nat), Some(need)) = (r::min_version(cm, e, len), r::min_version(fm, e, len)) {
                    if len % 3 == 0 || len <= 128 {
                        for v in [nat, need.saturating_sub(1).max(1), need] {
                            if !versions.contains(&Some(v as u8)) {
                                versions.push(Some(v as u8));
                            }
                        }
                    }
                }
                for version in versions {
                    cases.push(Case {
                        input: Input::Fam(Family::Ctr, cm as u8, len as u32),
                        opts: Opts { mode: Some(fm as u8), ecl: Some(e as u8), version, mask: None, order: (len % 24) as u8 },
                    });
                }
            }
        }
    }
    Space {
        name: format!("S_cross{}", if thorough { "" } else { "/quick" }),
        describe: format!(
            "content of a denser class under a forced less dense mode: (digits->Alphanumeric, digits->Byte, alphanumeric->Byte) x 4 levels x {} up to 40 beyond the v40 capacity of the forced mode, version automatic, forced 40 on every 64th length and around capacity, and (lengths <= 128 and every third) forced to the first and last version of the gap between the content class's own minimum and the forced mode's minimum and to the first that fits; setter order rotating with the length",
            if thorough { "every length" } else { "lengths 0..=128, all capacity thresholds of the forced mode -1/0/+1, every 7th length" }
        ),
        cases,
        exhaustive: true,
    }
}

pub fn cell_lengths(cap: usize, thorough: bool) -> Vec<usize> {
    let mut l = if thorough {
        let mut l = vec![0, 1, 2, 3, cap / 2, cap.saturating_sub(2), cap.saturating_sub(1), cap];
        // interior lengths: fractions of the capacity and the neighbourhoods of 8, 16, 64 and 256
        l.extend([cap / 4, cap / 3, 2 * cap / 3, 3 * cap / 4, 7, 8, 9, 15, 16, 17, 63, 64, 65, 255, 256, 257].iter().filter(|&&x| x <= cap));
        l
    } else {
        vec![0, 1, cap.saturating_sub(1), cap]
    };
    l.sort();
    l.dedup();
    l
}

/// S_cell: every (version, level, mask, mode) cell, everything forced, boundary lengths
pub fn s_cell(thorough: bool) -> Space {
    let mut cases = vec![];
    for v in 1..=40usize {
        for e in 0..4usize {
            for k in 0..8usize {
                for m in 0..3usize {
                    for len in cell_lengths(r::cap(v, e, m), thorough) {
                        cases.push(Case {
                            input: Input::Fam(Family::Ctr, m as u8, len as u32),
                            opts: Opts::forced(m, e, v, k),
                        });
                    }
                }
            }
        }
    }
    Space {
        name: "S_cell".into(),
        describe: format!(
            "all 40x4x8x3 = 3840 forced cells x lengths {}",
            if thorough { "{0,1,2,3,cap/4,cap/3,cap/2,2cap/3,3cap/4,cap-2,cap-1,cap} and {7,8,9,15,16,17,63,64,65,255,256,257} where they fit" } else { "{0,1,cap-1,cap}" }
        ),
        cases,
        exhaustive: true,
    }
}

pub const OPT_PAYLOADS: [&[u8]; 5] = [
    b"",
    b"7",
    b"A7",
    b"a7",
    b"Mixed bytes: \x00\x01\xfe\xff 0123456789 abc ABC $%*+",
];

/// S_opt: the option-presence lattice: (level|auto) x (mask|auto) x (version|auto) x (mode|auto)
pub fn s_opt(thorough: bool) -> Space {
    let versions: Vec<Option<u8>> = if thorough {
        std::iter::once(None).chain((1..=40).map(Some)).collect()
    } else {
        [None, Some(1), Some(2), Some(6), Some(7), Some(9), Some(10), Some(26), Some(27), Some(39), Some(40)].to_vec()
    };
    let mut cases = vec![];
    for p in OPT_PAYLOADS {
        for ecl in std::iter::once(None).chain((0..4).map(Some)) {
            for mask in std::iter::once(None).chain((0..8).map(Some)) {
                for &version in &versions {
                    for mode in std::iter::once(None).chain((0..3).map(Some)) {
                        if let Some(m) = mode {
                            if !r::mode_accepts(m as usize, p) {
                                continue;
                            }
                        }
                        cases.push(Case::new(p.to_vec(), Opts { mode, ecl, version, mask, order: 0 }));
                    }
                }
            }
        }
    }
    Space {
        name: "S_opt".into(),
        describe: format!(
            "option lattice (level|auto)x(mask|auto)x(version in {} choices)x(mode|auto) x 5 payloads, forced modes restricted to payloads they accept",
            versions.len()
        ),
        cases,
        exhaustive: true,
    }
}

/// S_group: every packing group value at every reachable bit alignment, in the three count-width classes
pub fn s_group(thorough: bool) -> Space {
    let mut cases = vec![];
    for &v in &[1usize, 10, 27] {
        let full = thorough || v == 1;
        let fo = |m: usize| Opts {
            mode: Some(m as u8),
            ecl: Some(0),
            version: Some(v as u8),
            mask: None, order: 0 };
        // numeric: full groups at group index g = 0..4, tails after g full groups
        for g in 0..if full { 4usize } else { 1 } {
            for val in 0..1000usize {
                let mut s = content(Family::Ctr, 0, 15);
                let d = format!("{:03}", val);
                s[3 * g..3 * g + 3].copy_from_slice(d.as_bytes());
                cases.push(Case::new(s, fo(0)));
            }
            for val in 0..100usize {
                let mut s = content(Family::Ctr, 0, 3 * g);
                s.extend_from_slice(format!("{:02}", val).as_bytes());
                cases.push(Case::new(s, fo(0)));
            }
            for val in 0..10usize {
                let mut s = content(Family::Ctr, 0, 3 * g);
                s.extend_from_slice(format!("{}", val).as_bytes());
                cases.push(Case::new(s, fo(0)));
            }
        }
        // alphanumeric: pairs at pair index g = 0..8, tails after g pairs
        for g in 0..if full { 8usize } else { 1 } {
            for a in 0..45usize {
                for b in 0..45usize {
                    let mut s = content(Family::Ctr, 1, 17);
                    s[2 * g] = r::ALNUM[a];
                    s[2 * g + 1] = r::ALNUM[b];
                    cases.push(Case::new(s, fo(1)));
                }
                let mut s = content(Family::Ctr, 1, 2 * g);
                s.push(r::ALNUM[a]);
                cases.push(Case::new(s, fo(1)));
            }
        }
        // bytes: every value at positions 0, 1, 2 of a 3-byte string
        for pos in 0..3usize {
            for val in 0..256usize {
                let mut s = content(Family::Ctr, 2, 3);
                s[pos] = val as u8;
                cases.push(Case::new(s, fo(2)));
            }
        }
    }
    Space {
        name: "S_group".into(),
        describe: if thorough {
            "all 1000+100+10 digit groups x 4 alignments, all 2025+45 alphanumeric groups x 8 alignments, all 256 bytes x 3 positions, in count-width classes v1, v10, v27 (level L)".into()
        } else {
            "v1: all 1000+100+10 digit groups x 4 alignments, all 2025+45 alphanumeric groups x 8 alignments, all 256 bytes x 3 positions; v10 and v27 (other count widths): the same groups at group index 0 only (thorough: all alignments)".into()
        },
        cases,
        exhaustive: true,
    }
}

/// the 25-symbol class-boundary alphabet of S_small's thorough tier
pub const BOUNDARY_ALPHABET: [u8; 25] = [
    b'0', b'1', b'9', b'A', b'Z', b' ', b'$', b'%', b'*', b'+', b'-', b'.', b'/', b':', b'a', b'z',
    b',', b';', b'@', b'[', 0x00, 0x1F, 0x7F, 0x80, 0xFF,
];

/// S_small: every byte string of length <= 2, jointly, all options automatic except the level
pub fn s_small(levels: &[Option<u8>], thorough: bool) -> Space {
    let mut inputs: Vec<Vec<u8>> = vec![vec![]];
    for a in 0..=255u8 {
        inputs.push(vec![a]);
    }
    for a in 0..=255u8 {
        for b in 0..=255u8 {
            inputs.push(vec![a, b]);
        }
    }
    if thorough {
        let al = &BOUNDARY_ALPHABET;
        for a in al {
            for b in al {
                for c in al {
                    inputs.push(vec![*a, *b, *c]);
                    for d in al {
                        inputs.push(vec![*a, *b, *c, *d]);
                    }
                }
            }
        }
        for len in 3..=4usize {
            for x in 0..10usize.pow(len as u32) {
                inputs.push(format!("{:0w$}", x, w = len).into_bytes());
            }
        }
    }
    let mut cases = vec![];
    for &ecl in levels {
        for i in &inputs {
            cases.push(Case::new(
                i.clone(),
                Opts {
                    mode: None,
                    ecl,
                    version: None,
                    mask: None, order: 0 },
            ));
        }
    }
    Space {
        name: "S_small".into(),
        describe: format!(
            "every byte string of length 0,1,2 (65793){} x levels {:?}, everything else automatic",
            if thorough { " + all strings of length 3,4 over a 25-symbol class-boundary alphabet + all digit strings of length 3,4" } else { "" },
            levels
        ),
        cases,
        exhaustive: true,
    }
}

/// S_pair_ctx: every byte pair and every single byte inside longer strings (all options automatic): the pair
/// in the middle and at the end of a 20-byte counter string, every byte value at every position of a 24-byte
/// string. Catches content handling that looks at neighbouring bytes (line-end normalisation, UTF-8 awareness,
/// escape processing) which neither per-group enumeration nor whole inputs of <= 2 bytes reach.
pub fn s_pair_ctx(thorough: bool) -> Space {
    let mut cases = vec![];
    let auto = Opts { mode: None, ecl: None, version: None, mask: None, order: 0 };
    let base = content(Family::Ctr, 2, 20);
    let positions: &[usize] = if thorough { &[0, 7, 18] } else { &[7, 18] };
    for &p in positions {
        for a in 0..=255u8 {
            for b in 0..=255u8 {
                let mut s = base.clone();
                s[p] = a;
                s[p + 1] = b;
                cases.push(Case::new(s, auto));
            }
        }
    }
    let base = content(Family::Ctr, 2, 24);
    for p in 0..24 {
        for a in 0..=255u8 {
            let mut s = base.clone();
            s[p] = a;
            cases.push(Case::new(s, auto));
        }
    }
    // every valid 3-byte UTF-8 lead/continuation combination class: all (lead, c1) pairs followed by a fixed continuation
    if thorough {
        for a in 0xC0..=0xFFu8 {
            for b in 0x80..=0xBFu8 {
                for c in [0x80u8, 0xBF] {
                    let mut s = b"ab".to_vec();
                    s.extend_from_slice(&[a, b, c]);
                    s.extend_from_slice(b"yz");
                    cases.push(Case::new(s, auto));
                }
            }
        }
    }
    Space {
        name: "S_pair_ctx".into(),
        describe: format!("every byte pair (65536) at positions {:?} of a 20-byte counter string, every byte value at every position of a 24-byte string{}; all options automatic", positions, if thorough { ", all UTF-8 lead x continuation pairs inside text" } else { "" }),
        cases,
        exhaustive: true,
    }
}

/// A byte-mode payload of full capacity whose placed data codewords are (from the first payload bit on) the
/// pattern of mask `k` itself, or its complement: candidate `k` of the selection is then uniformly light (dark) over
/// the whole data-codeword region, the most extreme candidate there is (longest runs, most 2x2 blocks, extreme
/// dark ratio), and every other candidate is the XOR of two mask patterns.
pub fn antimask_payload(v: usize, e: usize, k: usize, complement: bool) -> Vec<u8> {
    let g = r::geo_of(v);
    let total = r::total_codewords(v);
    let mut cw = vec![0u8; total];
    for (i, &(y, x)) in g.zigzag.iter().enumerate() {
        if i / 8 < total && (r::maskbit(k, y, x) ^ complement) {
            cw[i / 8] |= 1 << (7 - i % 8);
        }
    }
    let ec = r::ECPB[e][v];
    let blocks = r::deinterleave(&cw, v, e);
    let mut data: Vec<u8> = vec![];
    for b in &blocks {
        data.extend_from_slice(&b[..b.len() - ec]);
    }
    payload_for_codewords(v, e, &data)
}

/// The byte-mode payload of full capacity whose data codewords are `data` from the first payload bit on (the
/// first 4 + count-width bits are the segment header and the last four bits the terminator; what `data` says
/// there is ignored): lets a space be defined at the level of codewords and blocks.
pub fn payload_for_codewords(v: usize, e: usize, data: &[u8]) -> Vec<u8> {
    let dc = r::data_codewords(v, e);
    debug_assert_eq!(data.len(), dc);
    let hdr = 4 + r::cci(v, 2);
    let len = r::cap(v, e, 2);
    let bit = |p: usize| -> u8 { (data[p / 8] >> (7 - p % 8)) & 1 };
    (0..len).map(|i| (0..8).fold(0u8, |acc, j| (acc << 1) | bit(hdr + 8 * i + j))).collect()
}

/// The byte-mode payload of full capacity that makes mask candidate `k` of version `v` level `e` show, on every
/// module that belongs to a DATA codeword, the value `wanted(row, col)` (None = pseudo-random, determined by `seed`).
/// Modules of EC codewords and the first header bits cannot be chosen. Lets a selection instance be designed: a
/// candidate that looks random except for a planted feature.
pub fn payload_for_candidate(v: usize, e: usize, k: usize, seed: u64, wanted: &dyn Fn(usize, usize) -> Option<bool>) -> Vec<u8> {
    let g = r::geo_of(v);
    let total = r::total_codewords(v);
    let dc = r::data_codewords(v, e);
    let mut cw = vec![0u8; total];
    for (i, &(y, x)) in g.zigzag.iter().enumerate() {
        if i / 8 >= dc {
            continue;
        }
        let w = wanted(y, x).unwrap_or_else(|| {
            // splitmix64 of (seed, position)
            let mut z = seed.wrapping_mul(0xD6E8_FEB8_6659_FD93).wrapping_add(((y * 177 + x + 1) as u64).wrapping_mul(0x9E37_79B9_7F4A_7C15));
            z = (z ^ (z >> 30)).wrapping_mul(0xBF58_476D_1CE4_E5B9);
            z = (z ^ (z >> 27)).wrapping_mul(0x94D0_49BB_1331_11EB);
            z ^= z >> 31;
            (z >> 17) & 1 == 1
        });
        if w ^ r::maskbit(k, y, x) {
            cw[i / 8] |= 1 << (7 - i % 8);
        }
    }
    let ec = r::ECPB[e][v];
    let blocks = r::deinterleave(&cw, v, e);
    let mut data: Vec<u8> = vec![];
    for b in &blocks {
        data.extend_from_slice(&b[..b.len() - ec]);
    }
    payload_for_codewords(v, e, &data)
}

/// is (row, col) a module of a data codeword of (v, e) whose bits a byte-mode payload of full capacity decides?
/// Excluded: the first three codewords of block 0 (mode indicator and character count; after interleaving they sit at
/// codeword positions 0, b and 2b for b blocks) and the last data codeword (its low nibble is the terminator).
pub fn data_codeword_modules(v: usize, e: usize) -> Vec<bool> {
    let g = r::geo_of(v);
    let dc = r::data_codewords(v, e);
    let (short, _, long) = r::block_layout(v, e);
    let nb = short + long;
    let mut m = vec![false; g.n * g.n];
    for (i, &(y, x)) in g.zigzag.iter().enumerate() {
        let c = i / 8;
        if c < dc && c != 0 && c != nb && c != 2 * nb && c != dc - 1 {
            m[y * g.n + x] = true;
        }
    }
    m
}

/// start offset and length of every data block of (v, e) in the sequence of data codewords
pub fn block_spans(v: usize, e: usize) -> Vec<(usize, usize)> {
    let (short, sl, long) = r::block_layout(v, e);
    let mut out = vec![];
    let mut off = 0;
    for b in 0..short + long {
        let l = if b < short { sl } else { sl + 1 };
        out.push((off, l));
        off += l;
    }
    out
}

/// S_cw: payloads crafted at the level of data codewords and blocks, for all 160 (version, level):
///  unit      - all zero except one codeword of value 0x01 / 0x02 / 0x80 / 0xFF at the start of block b (every b >= 1,
///              up to 12 blocks per layout) and at its second and last position
///  pad-ends  - the pad pattern EC 11 EC 11 .. in every block, with one codeword in the middle of each block changed
///  twins     - every block holds the same counter pattern (adjacent blocks are equal), and the same with the last
///              codeword of every second block changed
///  zero-then - block b all zero after a non-zero block, for every b >= 1 (up to 12)
/// Shortcuts in the division and in the block structuring (skip zero runs, reuse the previous block's remainder,
/// treat pad blocks alike) are keyed on exactly these shapes.
pub fn s_cw(thorough: bool) -> Space {
    let mut cases = vec![];
    let push = |cases: &mut Vec<Case>, v: usize, e: usize, d: &[u8]| {
        cases.push(Case::new(payload_for_codewords(v, e, d), Opts { mode: Some(2), ecl: Some(e as u8), version: Some(v as u8), mask: None, order: 0 }));
    };
    for v in 1..=40usize {
        for e in 0..4usize {
            if !thorough && !(v <= 12 || v % 3 == 2 || v == 40) {
                continue;
            }
            let dc = r::data_codewords(v, e);
            let spans = block_spans(v, e);
            let nb = spans.len();
            let cap_b = if thorough { 24 } else { 8 };
            // unit
            for (b, &(off, l)) in spans.iter().enumerate().skip(1).take(cap_b) {
                for (vi, val) in [0x01u8, 0x02, 0x80, 0xFF].iter().enumerate() {
                    if !thorough && vi > 0 && b > 2 {
                        continue;
                    }
                    for p in [0usize, 1, l - 1] {
                        let mut d = vec![0u8; dc];
                        d[off + p] = *val;
                        push(&mut cases, v, e, &d);
                    }
                }
            }
            // pad-ends
            let mut d: Vec<u8> = (0..dc).map(|i| [0xECu8, 0x11][i % 2]).collect();
            for (b, &(off, l)) in spans.iter().enumerate() {
                // block-local alternation, so that every block starts EC 11 and ends on a pad pair
                for i in 0..l {
                    d[off + i] = [0xECu8, 0x11][i % 2];
                }
                d[off + l / 2] = (b * 37 + 1) as u8;
            }
            push(&mut cases, v, e, &d);
            // twins
            let mut d = vec![0u8; dc];
            for &(off, l) in &spans {
                for i in 0..l {
                    d[off + i] = ((i * 29 + 7) % 256) as u8;
                }
            }
            push(&mut cases, v, e, &d);
            for (b, &(off, l)) in spans.iter().enumerate() {
                if b % 2 == 1 {
                    d[off + l - 1] ^= 0x5A;
                }
            }
            push(&mut cases, v, e, &d);
            // pad-block: one later block is exactly the pad alternation (EC 11 .. or 11 EC ..), every other block holds
            // its own counter pattern (a shortcut that takes "padding from here on" for granted meets real data after it)
            for b in 1..nb.min(cap_b + 1) {
                for phase in 0..2usize {
                    let mut d: Vec<u8> = vec![0u8; dc];
                    for (bb, &(off, l)) in spans.iter().enumerate() {
                        for i in 0..l {
                            d[off + i] = if bb == b { [0xECu8, 0x11][(i + phase) % 2] } else { ((i * 29 + bb * 53 + 7) % 251 + 1) as u8 };
                        }
                    }
                    push(&mut cases, v, e, &d);
                }
            }
            // zero-then
            for b in 1..nb.min(cap_b + 1) {
                let mut d: Vec<u8> = (0..dc).map(|i| ((i * 31 + 3) % 255 + 1) as u8).collect();
                let (off, l) = spans[b];
                for i in 0..l {
                    d[off + i] = 0;
                }
                push(&mut cases, v, e, &d);
            }
        }
    }
    Space {
        name: "S_cw".into(),
        describe: format!("payloads crafted at codeword/block level for {} (version, level) pairs: one codeword 0x01/0x02/0x80/0xFF at the start, second and last position of a later block; pad-pattern blocks with one middle codeword changed; one later block that is exactly the pad alternation among blocks of real data; equal adjacent blocks (and with changed last codewords); a zero block after non-zero blocks", if thorough { "all 160" } else { "the (version, level) pairs of v <= 12, v = 2 mod 3 and v = 40" }),
        cases,
        exhaustive: true,
    }
}

/// S_antimask: the anti-mask payloads of every mask and both polarities, mask automatic (and forced to k)
pub fn s_antimask(thorough: bool) -> Space {
    let mut cases = vec![];
    let versions: Vec<usize> = if thorough { (1..=40).collect() } else { vec![1, 2, 5, 7, 9, 20, 39, 40] };
    let levels: &[usize] = if thorough { &[0, 1, 2, 3] } else { &[0, 3] };
    for &v in &versions {
        for &e in levels {
            for k in 0..8usize {
                for complement in [false, true] {
                    let p = antimask_payload(v, e, k, complement);
                    cases.push(Case::new(p.clone(), Opts { mode: Some(2), ecl: Some(e as u8), version: Some(v as u8), mask: None, order: 0 }));
                    if thorough || complement {
                        cases.push(Case::new(p, Opts { mode: Some(2), ecl: Some(e as u8), version: Some(v as u8), mask: Some(k as u8), order: 0 }));
                    }
                }
            }
        }
    }
    Space {
        name: "S_antimask".into(),
        describe: format!("byte-mode payloads of full capacity whose placed data codewords equal mask pattern k or its complement (candidate k uniformly light / dark over the data-codeword region): versions {:?} x levels {:?} x 8 masks x 2 polarities, mask automatic and forced to k", versions, levels),
        cases,
        exhaustive: true,
    }
}

/// S_forced_dense: dense lengths under forced versions (the symbol is only partly filled: every count of spare
/// bits modulo 8, 16, 256 occurs; long pad runs; every terminator situation far from capacity)
pub fn s_forced_dense(thorough: bool) -> Space {
    let mut cases = vec![];
    let versions: &[usize] = if thorough { &[1, 2, 5, 9, 10, 15, 20, 26, 27, 34, 40] } else { &[1, 4, 9, 10, 15, 26, 27, 40] };
    for &v in versions {
        for e in 0..4usize {
            for m in 0..3usize {
                let cap = r::cap(v, e, m);
                let dense = if thorough { 700 } else { 330 };
                let mut lens: Vec<usize> = (0..=cap.min(dense)).collect();
                lens.extend((dense..=cap).step_by(if thorough { 5 } else { 11 }));
                lens.sort();
                lens.dedup();
                for len in lens {
                    cases.push(Case {
                        input: Input::Fam(Family::Ctr, m as u8, len as u32),
                        opts: Opts { mode: Some(m as u8), ecl: Some(e as u8), version: Some(v as u8), mask: None, order: 0 },
                    });
                }
            }
        }
    }
    Space {
        name: "S_forced_dense".into(),
        describe: format!("forced versions {:?} x 4 levels x 3 modes x every length up to {} and every {}th beyond, up to the capacity", versions, if thorough { 700 } else { 330 }, if thorough { 5 } else { 11 }),
        cases,
        exhaustive: true,
    }
}

/// S_order: every order of the setter calls. For option tuples with all four options forced, with one left
/// automatic, and with mode + level only: all 24 permutations of (mode, ecl, version, mask); the result must
/// not depend on the order (judged by the ordinary oracle, which knows nothing about order).
pub fn s_order(thorough: bool) -> Space {
    let mut cases = vec![];
    let payloads: Vec<(Vec<u8>, usize)> = vec![
        (content(Family::Ctr, 0, 30), 0),
        (content(Family::Ctr, 0, 60), 0),
        (content(Family::Ctr, 1, 25), 1),
        (content(Family::Ctr, 2, 17), 2),
        (content(Family::Ctr, 0, if thorough { 1000 } else { 200 }), 0),
        // lower-case text whose upper-case form is alphanumeric (a setter that "helps" by normalising the input)
        (b"https://example.com/fast-qr".to_vec(), 2),
        (b"hello world".to_vec(), 2),
    ];
    for (p, cm) in &payloads {
        for fm in *cm..3 {
            for e in [0usize, 2, 3] {
                let need = match r::min_version(fm, e, p.len()) {
                    Some(v) => v,
                    None => continue,
                };
                let nat = r::min_version(*cm, e, p.len()).unwrap_or(need);
                let mut tuples: Vec<Opts> = vec![];
                for v in [None, Some(nat as u8), Some(need as u8), Some((need + 1).min(40) as u8)] {
                    for k in [None, Some(5u8)] {
                        tuples.push(Opts { mode: Some(fm as u8), ecl: Some(e as u8), version: v, mask: k, order: 0 });
                        tuples.push(Opts { mode: None, ecl: Some(e as u8), version: v, mask: k, order: 0 });
                    }
                }
                tuples.push(Opts { mode: Some(fm as u8), ecl: None, version: None, mask: None, order: 0 });
                for t in tuples {
                    for order in 0..75u8 {
                        cases.push(Case::new(p.clone(), Opts { order, ..t }));
                    }
                }
            }
        }
    }
    Space {
        name: "S_order".into(),
        describe: "all 24 orders of the setter calls (mode, ecl, version, mask), each also preceded by calls of the same setters with other values (last value wins; both other modes in turn), and the input handed over in three other shapes (a Vec with 9000 bytes of spare capacity, a Vec grown by pushes, a String), x 7 payloads x forced modes at least as wide as the content x levels {L, Q, H} x versions {auto, smallest for the content's own class, smallest for the forced mode, one more} x mask {auto, 5}".into(),
        cases,
        exhaustive: true,
    }
}

/// S_mask: 160 (v, level) x {ctr, lo} at byte capacity; the caller builds all 8 masks per case
pub fn s_mask_bases() -> Vec<(usize, usize, Family, Vec<u8>)> {
    let mut out = vec![];
    for v in 1..=40usize {
        for e in 0..4usize {
            for f in [Family::Ctr, Family::Lo] {
                let len = r::cap(v, e, 2);
                out.push((v, e, f, content(f, 2, len)));
            }
        }
    }
    out
}

/// S_cap_families: extreme payloads (all-minimum, all-maximum, pad look-alike, counter) at capacity and at length 1
pub fn s_cap_families(thorough: bool) -> Space {
    let mut cases = vec![];
    for v in 1..=40usize {
        for e in 0..4usize {
            for f in [Family::Ctr, Family::Lo, Family::Hi, Family::Pad, Family::Sparse] {
                for m in 0..3usize {
                    if !thorough && m != 2 && !(v <= 10 || v % 5 == 0) {
                        continue;
                    }
                    let cap = r::cap(v, e, m);
                    for len in [cap, cap / 2, 1] {
                        cases.push(Case {
                            input: Input::Fam(f, m as u8, len as u32),
                            opts: Opts { mode: Some(m as u8), ecl: Some(e as u8), version: Some(v as u8), mask: None, order: 0 },
                        });
                    }
                }
            }
        }
    }
    Space {
        name: "S_cap_families".into(),
        describe: if thorough {
            "all 160 (version, level) x {ctr, all-minimum, all-maximum, pad look-alike, sparse} x 3 modes at capacity, half capacity and length 1 (extreme dark ratios, long runs, zero runs followed by pad codewords)".into()
        } else {
            "all 160 (version, level) x {ctr, all-minimum, all-maximum, pad look-alike, sparse} in byte mode (all 3 modes for v<=10 and v divisible by 5) at capacity, half capacity and length 1".into()
        },
        cases,
        exhaustive: true,
    }
}

