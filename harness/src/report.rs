//! Collecting what a check covered and what it found; evidence and replay files; known findings

use serde_json::{json, Map, Value};
use std::collections::{BTreeMap, HashSet};
use std::sync::atomic::{AtomicU64, Ordering};
use std::sync::Mutex;

#[derive(Clone, Copy, PartialEq, Eq, Debug)]
pub enum Tier {
    Quick,
    Thorough,
}

impl Tier {
    pub fn name(&self) -> &'static str {
        match self {
            Tier::Quick => "quick",
            Tier::Thorough => "thorough",
        }
    }
    pub fn thorough(&self) -> bool {
        *self == Tier::Thorough
    }
}

pub struct Ctx {
    pub prop: String,
    pub tier: Tier,
    pub seed: u64,
    pub verif_dir: String,
}

#[derive(Clone, Debug)]
pub struct Violation {
    /// stable identity of the failure (call site + minimal case class); matched against known_findings.json
    pub key: String,
    pub what: String,
    pub case: Value,
    /// deterministic ordering key (space index, case index)
    pub order: (u64, u64),
}

pub struct Collector {
    pub prop: String,
    pub level: &'static str,
    pub rule: Mutex<String>,
    pub evals: AtomicU64,
    pub digests: Mutex<HashSet<u64>>,
    pub violations: Mutex<Vec<Violation>>,
    pub violation_count: AtomicU64,
    pub samples: Mutex<Vec<Value>>,
    pub skipped_panics: AtomicU64,
    pub spaces: Mutex<Vec<Value>>,
    pub extra: Mutex<Map<String, Value>>,
    pub assumptions: Mutex<Vec<String>>,
    pub caps_hit: Mutex<Vec<String>>,
    pub exhaustive: Mutex<bool>,
    pub machinery_errors: Mutex<Vec<String>>,
    /// the explicit-state view of the E1 sweeps: distinct abstract builder states (option tuples incl. setter order)
    /// reached, setter/build calls executed on real objects, traces judged against the reference model
    pub builder_states: Mutex<HashSet<u64>>,
    pub builder_transitions: AtomicU64,
    pub builder_traces: AtomicU64,
}

const MAX_STORED_VIOLATIONS: usize = 2000;

impl Collector {
    pub fn new(prop: &str, level: &'static str) -> Self {
        Collector {
            prop: prop.to_string(),
            level,
            rule: Mutex::new(String::new()),
            evals: AtomicU64::new(0),
            digests: Mutex::new(HashSet::new()),
            violations: Mutex::new(vec![]),
            violation_count: AtomicU64::new(0),
            samples: Mutex::new(vec![]),
            skipped_panics: AtomicU64::new(0),
            spaces: Mutex::new(vec![]),
            extra: Mutex::new(Map::new()),
            assumptions: Mutex::new(vec![]),
            caps_hit: Mutex::new(vec![]),
            exhaustive: Mutex::new(true),
            machinery_errors: Mutex::new(vec![]),
            builder_states: Mutex::new(HashSet::new()),
            builder_transitions: AtomicU64::new(0),
            builder_traces: AtomicU64::new(0),
        }
    }
    pub fn set_rule(&self, r: &str) {
        *self.rule.lock().unwrap() = r.to_string();
    }
    /// one case evaluated; `digest` = Some(observation digest) when the case reached the oracle with a
    /// non-trivial observation (counts towards distinct_nontrivial)
    pub fn eval(&self, digest: Option<u64>) {
        self.evals.fetch_add(1, Ordering::Relaxed);
        if let Some(d) = digest {
            self.digests.lock().unwrap().insert(d);
        }
    }
    pub fn evals_add(&self, n: u64) {
        self.evals.fetch_add(n, Ordering::Relaxed);
    }
    pub fn digest(&self, d: u64) {
        self.digests.lock().unwrap().insert(d);
    }
    pub fn violation(&self, order: (u64, u64), key: String, what: String, case: Value) {
        self.violation_count.fetch_add(1, Ordering::Relaxed);
        let mut v = self.violations.lock().unwrap();
        if v.len() < MAX_STORED_VIOLATIONS {
            v.push(Violation { key, what, case, order });
        }
    }
    pub fn sample(&self, v: Value) {
        let mut s = self.samples.lock().unwrap();
        if s.len() < 24 {
            s.push(v);
        }
    }
    pub fn skipped_panic(&self) {
        self.skipped_panics.fetch_add(1, Ordering::Relaxed);
    }
    pub fn space(&self, v: Value) {
        self.spaces.lock().unwrap().push(v);
    }
    pub fn set(&self, k: &str, v: Value) {
        self.extra.lock().unwrap().insert(k.to_string(), v);
    }
    pub fn add(&self, k: &str, n: u64) {
        let mut e = self.extra.lock().unwrap();
        let cur = e.get(k).and_then(|v| v.as_u64()).unwrap_or(0);
        e.insert(k.to_string(), json!(cur + n));
    }
    pub fn assume(&self, s: &str) {
        self.assumptions.lock().unwrap().push(s.to_string());
    }
    pub fn cap_hit(&self, s: &str) {
        self.caps_hit.lock().unwrap().push(s.to_string());
        *self.exhaustive.lock().unwrap() = false;
    }
    pub fn not_exhaustive(&self) {
        *self.exhaustive.lock().unwrap() = false;
    }
    pub fn machinery_error(&self, s: String) {
        self.machinery_errors.lock().unwrap().push(s);
    }
}

// ---------------------------------------------------------------- in-flight trace (abort attribution) and watchdog

static TRACE: Mutex<Option<std::fs::File>> = Mutex::new(None);
static TRACE_SPACE: AtomicU64 = AtomicU64::new(0);
const SLOT: usize = 512;
const MAX_WORKERS: usize = 64;
static STARTED_MS: [AtomicU64; MAX_WORKERS] = [const { AtomicU64::new(0) }; MAX_WORKERS];
static DESCS: Mutex<Vec<String>> = Mutex::new(Vec::new());

thread_local! {
    static WORKER: std::cell::Cell<usize> = const { std::cell::Cell::new(0) };
}

fn now_ms() -> u64 {
    static T0: std::sync::OnceLock<std::time::Instant> = std::sync::OnceLock::new();
    T0.get_or_init(std::time::Instant::now).elapsed().as_millis() as u64 + 1
}

pub fn trace_open(path: &str) {
    if let Ok(f) = std::fs::OpenOptions::new().create(true).write(true).truncate(true).open(path) {
        *TRACE.lock().unwrap() = Some(f);
    }
    let mut d = DESCS.lock().unwrap();
    d.clear();
    d.resize(MAX_WORKERS, String::new());
}

pub fn trace_space(idx: u64) {
    TRACE_SPACE.store(idx, Ordering::Relaxed);
}

/// called by the pool: worker t takes case i of the current loop
pub fn trace_case(t: usize, _i: usize) {
    WORKER.with(|w| w.set(t));
}

/// a subject case begins on this worker: remembered for the watchdog, written to the trace file
/// (fixed slot, pwrite) so that the supervising parent can name the case if the process dies
pub fn case_begin(desc: &str) {
    use std::os::unix::fs::FileExt;
    let t = WORKER.with(|w| w.get()) % MAX_WORKERS;
    let mut rec = format!("{}", desc);
    rec.truncate(SLOT - 2);
    {
        let mut d = DESCS.lock().unwrap();
        if d.len() == MAX_WORKERS {
            d[t] = rec.clone();
        }
    }
    STARTED_MS[t].store(now_ms(), Ordering::Relaxed);
    if let Some(f) = TRACE.lock().unwrap().as_ref() {
        let mut buf = rec.into_bytes();
        buf.resize(SLOT - 1, b' ');
        buf.push(b'\n');
        let _ = f.write_at(&buf, (t * SLOT) as u64);
    }
}

pub fn case_end() {
    use std::os::unix::fs::FileExt;
    let t = WORKER.with(|w| w.get()) % MAX_WORKERS;
    STARTED_MS[t].store(0, Ordering::Relaxed);
    if let Some(f) = TRACE.lock().unwrap().as_ref() {
        let mut buf = vec![b' '; SLOT - 1];
        buf.push(b'\n');
        let _ = f.write_at(&buf, (t * SLOT) as u64);
    }
}

/// the cases that were in flight according to a trace file (read by the supervisor)
pub fn trace_read(path: &str) -> Vec<String> {
    std::fs::read_to_string(path).unwrap_or_default().lines().map(|l| l.trim_matches(|c: char| c == '\0' || c.is_whitespace()).to_string()).filter(|l| !l.is_empty()).collect()
}

/// Watchdog: a subject case that runs longer than `limit_s` is reported as non-termination.
/// For properties that promise termination (C10) this is a VIOLATION (exit 1); otherwise exit 2.
pub fn start_watchdog(prop: String, verif_dir: String, limit_s: u64) {
    std::thread::spawn(move || loop {
        std::thread::sleep(std::time::Duration::from_millis(500));
        let now = now_ms();
        for t in 0..MAX_WORKERS {
            let st = STARTED_MS[t].load(Ordering::Relaxed);
            if st != 0 && now > st + limit_s * 1000 {
                let desc = DESCS.lock().unwrap().get(t).cloned().unwrap_or_default();
                let rdir = format!("{}/replays", verif_dir);
                let _ = std::fs::create_dir_all(&rdir);
                let path = format!("{}/{}-nontermination.json", rdir, prop);
                let case: Value = serde_json::from_str(&desc).unwrap_or(json!({"description": desc}));
                let rep = json!({"property": prop, "key": format!("{}/non-termination", prop), "what": format!("a case did not finish within {} s", limit_s), "case": case});
                let _ = std::fs::write(&path, serde_json::to_string_pretty(&rep).unwrap() + "\n");
                if prop == "C10" {
                    println!("  {}/non-termination: a build did not finish within {} s: {}", prop, limit_s, desc);
                    println!("VIOLATION property={} replay={}", prop, path);
                    std::process::exit(1);
                } else {
                    eprintln!("MACHINERY: a subject case did not finish within {} s (see C10): {}", limit_s, desc);
                    std::process::exit(2);
                }
            }
        }
    });
}

// ---------------------------------------------------------------- known findings

#[derive(Clone, Debug)]
pub struct Finding {
    pub status: String,
    pub property: String,
    pub key: String,
    pub what: String,
}

pub fn load_known(verif_dir: &str) -> Result<Vec<Finding>, String> {
    let p = format!("{}/known_findings.json", verif_dir);
    let txt = match std::fs::read_to_string(&p) {
        Ok(t) => t,
        Err(_) => return Ok(vec![]),
    };
    let v: Value = serde_json::from_str(&txt).map_err(|e| format!("{}: {}", p, e))?;
    let arr = v.get("findings").and_then(|a| a.as_array()).ok_or("known_findings.json: no findings array")?;
    let mut out = vec![];
    for f in arr {
        let g = |k: &str| f.get(k).and_then(|x| x.as_str()).unwrap_or("").to_string();
        out.push(Finding { status: g("status"), property: g("property"), key: g("key"), what: g("what") });
    }
    Ok(out)
}

// ---------------------------------------------------------------- finishing a check

pub struct Finish {
    pub exit_code: i32,
}

/// variant run (FQV_JSON set): no evidence, no replays, no verdict; the violations grouped by key go to a JSON file
pub fn finish_json(col: &Collector, path: &str) -> Finish {
    let mut viol = col.violations.lock().unwrap().clone();
    viol.sort_by(|a, b| a.order.cmp(&b.order).then(a.key.cmp(&b.key)));
    let mut by_key: BTreeMap<String, (Violation, u64)> = BTreeMap::new();
    for v in &viol {
        by_key.entry(v.key.clone()).and_modify(|e| e.1 += 1).or_insert((v.clone(), 1));
    }
    let out = json!({
        "evaluations": col.evals.load(Ordering::Relaxed),
        "skipped_subject_panics": col.skipped_panics.load(Ordering::Relaxed),
        "violations_total": col.violation_count.load(Ordering::Relaxed),
        "machinery_errors": col.machinery_errors.lock().unwrap().clone(),
        "violations": by_key.iter().map(|(k, (v, c))| json!({"key": k, "what": v.what, "case": v.case, "cases": c})).collect::<Vec<_>>(),
    });
    match std::fs::write(path, out.to_string()) {
        Ok(_) => Finish { exit_code: 0 },
        Err(_) => Finish { exit_code: 2 },
    }
}

pub fn finish(ctx: &Ctx, col: &Collector, wall_s: f64) -> Finish {
    let mut viol = col.violations.lock().unwrap().clone();
    viol.sort_by(|a, b| a.order.cmp(&b.order).then(a.key.cmp(&b.key)));
    let total_viol = col.violation_count.load(Ordering::Relaxed);
    let known = match load_known(&ctx.verif_dir) {
        Ok(k) => k,
        Err(e) => {
            eprintln!("MACHINERY: {}", e);
            return Finish { exit_code: 2 };
        }
    };
    // group by key, keep first of each
    let mut by_key: BTreeMap<String, (Violation, u64)> = BTreeMap::new();
    for v in &viol {
        by_key.entry(v.key.clone()).and_modify(|e| e.1 += 1).or_insert((v.clone(), 1));
    }
    let mut new_keys = vec![];
    let mut known_lines = vec![];
    for (k, (v, cnt)) in &by_key {
        if let Some(f) = known.iter().find(|f| f.status == "known" && f.property == col.prop && &f.key == k) {
            known_lines.push(format!("KNOWN-FINDING: property={} {} [key {}; {} case(s) this run; e.g. {}]", col.prop, f.what, k, cnt, v.what));
        } else {
            new_keys.push(k.clone());
        }
    }
    let machinery = col.machinery_errors.lock().unwrap().clone();
    let evals = col.evals.load(Ordering::Relaxed);
    let distinct = col.digests.lock().unwrap().len() as u64;
    let skipped = col.skipped_panics.load(Ordering::Relaxed);

    // evidence
    let mut cov = Map::new();
    cov.insert("evaluations".into(), json!(evals));
    cov.insert("distinct_nontrivial".into(), json!(distinct));
    cov.insert("rule".into(), json!(col.rule.lock().unwrap().clone()));
    cov.insert("samples".into(), Value::Array(col.samples.lock().unwrap().clone()));
    cov.insert("exhaustive".into(), json!(*col.exhaustive.lock().unwrap()));
    cov.insert("spaces".into(), Value::Array(col.spaces.lock().unwrap().clone()));
    cov.insert("caps_hit".into(), json!(col.caps_hit.lock().unwrap().clone()));
    let bt = col.builder_traces.load(Ordering::Relaxed);
    if bt > 0 && col.level != "model_checking" {
        cov.insert("builder_model".into(), json!({
            "what": "the E1 sweeps seen as explicit-state exploration of the builder: model state = option tuple (mode, level, version, mask, setter order), one transition per setter call and per build(), every trace executed on a real QRBuilder and judged against the reference model",
            "states": col.builder_states.lock().unwrap().len(), "transitions": col.builder_transitions.load(Ordering::Relaxed), "traces_validated_against_impl": bt}));
    }
    cov.insert("skipped_subject_panics".into(), json!(skipped));
    cov.insert("violation_keys".into(), json!(by_key.iter().map(|(k, (_, c))| json!({"key": k, "cases": c})).collect::<Vec<_>>()));
    for (k, v) in col.extra.lock().unwrap().iter() {
        cov.insert(k.clone(), v.clone());
    }
    let ev = json!({
        "property_id": col.prop,
        "tier": ctx.tier.name(),
        "seed": ctx.seed,
        "level": col.level,
        "coverage": Value::Object(cov),
        "assumptions": col.assumptions.lock().unwrap().clone(),
        "wall_s": (wall_s * 1000.0).round() / 1000.0,
        "violations": total_viol,
        "known_findings_matched": known_lines.len(),
        "machinery_errors": machinery,
        "subject": subject_info(),
    });
    let evdir = format!("{}/evidence", ctx.verif_dir);
    let _ = std::fs::create_dir_all(&evdir);
    let evpath = format!("{}/{}.json", evdir, col.prop);
    if let Err(e) = std::fs::write(&evpath, serde_json::to_string_pretty(&ev).unwrap() + "\n") {
        eprintln!("MACHINERY: cannot write {}: {}", evpath, e);
        return Finish { exit_code: 2 };
    }

    println!(
        "{} tier={} evaluations={} distinct_nontrivial={} violations={} skipped_subject_panics={} wall={:.1}s",
        col.prop, ctx.tier.name(), evals, distinct, total_viol, skipped, wall_s
    );
    for s in col.spaces.lock().unwrap().iter() {
        println!("  space {}", s);
    }
    for l in &known_lines {
        println!("{}", l);
    }
    // a violation shown on the real code (each carries its replayable case) stands whatever else went wrong in the
    // run; machinery trouble decides the exit code only when there is no violation to report
    if !machinery.is_empty() {
        for m in &machinery {
            eprintln!("MACHINERY: {}", m);
        }
        if new_keys.is_empty() {
            return Finish { exit_code: 2 };
        }
    }
    if new_keys.is_empty() && evals > 0 && skipped * 2 > evals {
        eprintln!("MACHINERY: more than half of the cases were skipped because the subject panicked; check is vacuous (see C10)");
        return Finish { exit_code: 2 };
    }
    if new_keys.is_empty() {
        return Finish { exit_code: 0 };
    }
    let rdir = format!("{}/replays", ctx.verif_dir);
    let _ = std::fs::create_dir_all(&rdir);
    for (i, k) in new_keys.iter().enumerate() {
        if i >= 12 {
            println!("  ... {} more distinct violation keys not written out", new_keys.len() - i);
            break;
        }
        let (v, cnt) = &by_key[k];
        let safe: String = k.chars().map(|c| if c.is_ascii_alphanumeric() || c == '-' || c == '_' { c } else { '_' }).take(80).collect();
        let path = format!("{}/{}-{}-{}.json", rdir, col.prop, i, safe);
        let rep = json!({"property": col.prop, "key": k, "what": v.what, "cases_with_this_key": cnt, "case": v.case, "tier": ctx.tier.name()});
        let _ = std::fs::write(&path, serde_json::to_string_pretty(&rep).unwrap() + "\n");
        println!("  {} ({} case(s)): {}", k, cnt, v.what);
        println!("VIOLATION property={} replay={}", col.prop, path);
    }
    Finish { exit_code: 1 }
}

pub fn subject_info() -> Value {
    let repo = std::env::var("VERIF_REPO").unwrap_or_else(|_| "/repo".to_string());
    let head = std::process::Command::new("git").args(["-C", repo.as_str(), "rev-parse", "HEAD"]).output().ok()
        .map(|o| String::from_utf8_lossy(&o.stdout).trim().to_string()).unwrap_or_default();
    let dirty = std::process::Command::new("git").args(["-C", repo.as_str(), "status", "--porcelain", "--untracked-files=no"]).output().ok()
        .map(|o| !o.stdout.is_empty()).unwrap_or(false);
    json!({"repo": repo, "head": head, "dirty_worktree": dirty, "cfg": "fast_qr_verif", "profile": "release + overflow-checks + debug-assertions (fast_qr)"})
}
