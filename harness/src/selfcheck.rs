//! Validation of the reference model R before any verdict: internal consistency plus decoding of
//! symbols produced by a third, unrelated encoder (the `qrcode` crate). A failure is a machinery
//! failure (exit 2), never a VIOLATION.

use crate::refmodel as r;

pub fn third_party() -> Result<String, String> {
    use qrcode::{Color, EcLevel, QrCode, Version};
    let levels = [EcLevel::L, EcLevel::M, EcLevel::Q, EcLevel::H];
    let mut n = 0;
    for v in 1..=40usize {
        for e in 0..4usize {
            // lower-case text: the third-party optimiser has to use one byte segment
            let cap = r::cap(v, e, 2);
            let len = cap.min(40 + v);
            let data: Vec<u8> = (0..len).map(|i| b'a' + ((i * 7 + v + e) % 26) as u8).collect();
            let code = QrCode::with_version(&data, Version::Normal(v as i16), levels[e]).map_err(|err| format!("qrcode crate v{} e{}: {:?}", v, e, err))?;
            let w = code.width();
            if w != r::side(v) {
                return Err(format!("third-party width {} for v{}", w, v));
            }
            let vals: Vec<bool> = code.to_colors().iter().map(|c| *c == Color::Dark).collect();
            let d = r::decode_symbol(&vals, w)?;
            let (fe, _, dist) = d.fmt.ok_or("third-party format")?;
            if fe != e || dist != 0 || d.fmt1 != d.fmt2 {
                return Err(format!("third-party symbol v{} e{}: R reads level {} (distance {})", v, e, fe, dist));
            }
            if v >= 7 && (d.ver1 != Some(r::version_word(v)) || d.ver2 != Some(r::version_word(v))) {
                return Err(format!("third-party symbol v{}: version information differs from R's BCH(18,6)", v));
            }
            if !d.syndromes_ok.iter().all(|&x| x) {
                return Err(format!("third-party symbol v{} e{}: R's Table 9 split gives non-zero syndromes", v, e));
            }
            if d.rem.iter().any(|&b| b) {
                return Err(format!("third-party symbol v{} e{}: remainder bits", v, e));
            }
            let seg = r::parse_segment(&d.data_raw, v)?;
            if seg.mode != 2 || seg.payload != data {
                return Err(format!("third-party symbol v{} e{}: payload differs (mode {})", v, e, seg.mode));
            }
            // function patterns of the third-party symbol equal R's geometry
            let g = r::geo_of(v);
            for i in 0..w * w {
                if let Some(b) = g.val[i] {
                    if vals[i] != b {
                        return Err(format!("third-party symbol v{}: function module {} differs from R's geometry ({:?})", v, i, g.reg[i]));
                    }
                }
            }
            // and R's own encoder reproduces the third-party symbol bit for bit when given its data codewords and mask
            let (_, k, _) = d.fmt.unwrap();
            let mine = r::encode_symbol_from_data(&d.data_raw, e, v, k);
            if mine != vals {
                return Err(format!("third-party symbol v{} e{}: R.enc(data codewords) differs from the third-party matrix", v, e));
            }
            n += 1;
        }
    }
    Ok(format!("R decodes and re-encodes {} third-party (qrcode crate) symbols: all 160 (version, level) pairs", n))
}

pub fn run(full: bool) -> Result<Vec<String>, String> {
    let mut out = vec![];
    out.push(r::selfcheck_internal(full)?);
    crate::parse::selftest()?;
    out.push("parsers (XML, SVG path, PNG/inflate) self-test ok".to_string());
    if full {
        out.push(third_party()?);
    }
    Ok(out)
}
