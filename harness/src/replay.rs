//! Re-running one recorded case without the explorer: ./check --replay <file>

use crate::core;
use crate::props;
use crate::subject::{self, Outcome};
use serde_json::Value;

/// returns the findings (key, what) that the property's oracle reports on this one case
pub fn run_case(prop: &str, case: &Value) -> Result<Vec<(String, String)>, String> {
    let kind = case.get("kind").and_then(|k| k.as_str()).unwrap_or("");
    match kind {
        "build" => {
            let (input, o) = subject::case_from_json(case).ok_or("malformed build case")?;
            let out = subject::build(&input, &o);
            let mut f = core::check_outcome(&out, &input, &o);
            if let Outcome::Ok(q) = &out {
                f.extend(core::check_symbol(q, &input, &o));
                if prop == "C16" {
                    let n = q.size;
                    let vals = subject::values(q);
                    if let Ok(text) = subject::guarded(|| q.to_str()) {
                        if let Err(e) = props::c16::check_text(&text, &|r, c| vals[r * n + c], n) {
                            f.push(core::Finding { prop: "C16", key: "C16/built-symbol".into(), what: e });
                        }
                    }
                }
            }
            if let (Outcome::Panic(msg), None) = (&out, o.mode) {
                f.push(core::Finding { prop: "C09", key: "C09/rejected".into(), what: format!("automatic mode: build panicked: {}", msg) });
            }
            let mut res: Vec<(String, String)> = f.into_iter().filter(|x| x.prop == prop).map(|x| (x.key, x.what)).collect();
            if prop == "C11" {
                res.extend(core::check_symbol_forced_mask(&out, &o));
            }
            Ok(res)
        }
        "selection" => {
            let (input, o) = subject::case_from_json(case).ok_or("malformed selection case")?;
            let (f, _, _) = props::c11::check_selection(&input, &o);
            Ok(f.into_iter().map(|(k, w)| (format!("C11/{}", k), w)).collect())
        }
        "selection-after" => {
            let (input, o) = subject::case_from_json(case).ok_or("malformed selection case")?;
            let pre = match case.get("prelude").and_then(|p| p.as_str()).unwrap_or("") {
                "ForcedBefore" => props::c11::Prelude::ForcedBefore,
                "SameBuilderOtherLevel" => props::c11::Prelude::SameBuilderOtherLevel,
                "SameBuilderOtherMode" => props::c11::Prelude::SameBuilderOtherMode,
                _ => return Err("unknown prelude".into()),
            };
            let (f, _, _) = props::c11::check_selection_after(&input, o.ecl.unwrap_or(2), pre);
            Ok(f.into_iter().map(|(k, w)| (format!("C11/{}-after-history", k), w)).collect())
        }
        _ => props::replay_other(prop, kind, case),
    }
}

pub fn main(path: &str) -> i32 {
    let txt = match std::fs::read_to_string(path) {
        Ok(t) => t,
        Err(e) => {
            eprintln!("MACHINERY: cannot read {}: {}", path, e);
            return 2;
        }
    };
    let v: Value = match serde_json::from_str(&txt) {
        Ok(v) => v,
        Err(e) => {
            eprintln!("MACHINERY: {} is not JSON: {}", path, e);
            return 2;
        }
    };
    let prop = v.get("property").and_then(|p| p.as_str()).unwrap_or("").to_string();
    let case = match v.get("case") {
        Some(c) => c.clone(),
        None => {
            eprintln!("MACHINERY: replay file has no case");
            return 2;
        }
    };
    if case.get("subject_build").and_then(|s| s.as_str()) == Some("release") && std::env::var("FQV_VARIANT_REPLAY").is_err() {
        // found against the subject as a release build makes it: replay there
        let dir = std::env::var("VERIF_DIR").unwrap_or_else(|_| "/verif".to_string());
        let target = std::env::var("CARGO_TARGET_DIR").unwrap_or_else(|_| format!("{}/target", dir));
        let built = std::process::Command::new("cargo").args(["build", "--profile", "relsubject", "--offline"]).current_dir(format!("{}/harness", dir)).output();
        if !built.map(|o| o.status.success()).unwrap_or(false) {
            eprintln!("MACHINERY: the release-subject harness does not build");
            return 2;
        }
        let st = std::process::Command::new(format!("{}/relsubject/fqv", target)).args(["replay", path]).env("FQV_VARIANT_REPLAY", "1").status();
        return st.ok().and_then(|s| s.code()).unwrap_or(2);
    }
    let a = run_case(&prop, &case);
    let b = run_case(&prop, &case);
    match (a, b) {
        (Ok(a), Ok(b)) => {
            if a != b && prop == "C14" {
                // for C14 two executions of the same case that differ ARE the violation
                let mut all = a.clone();
                for x in b {
                    if !all.contains(&x) {
                        all.push(x);
                    }
                }
                for (k, w) in &all {
                    println!("  {}: {}", k, w);
                }
                println!("  C14/replays-disagree: two replays of this case gave different findings");
                println!("VIOLATION property={} replay={}", prop, path);
                return 1;
            }
            if a != b {
                eprintln!("MACHINERY: two replays of the same case disagree (non-determinism; see C14): {:?} vs {:?}", a, b);
                return 2;
            }
            if a.is_empty() {
                println!("replay {}: property {} holds on this case", path, prop);
                0
            } else {
                for (k, w) in &a {
                    println!("  {}: {}", k, w);
                }
                println!("VIOLATION property={} replay={}", prop, path);
                1
            }
        }
        (Err(e), _) | (_, Err(e)) => {
            eprintln!("MACHINERY: cannot replay: {}", e);
            2
        }
    }
}
