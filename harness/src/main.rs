//! fqv: bounded exhaustive exploration of fast_qr against a reference model (see /verif/DESIGN.md)

mod core;
mod explore;
mod parse;
mod pool;
mod props;
mod refmodel;
mod replay;
mod selfcheck;
mod report;
mod spaces;
mod subject;
mod sweep;
mod util;

use report::{Ctx, Tier};

fn usage() -> ! {
    eprintln!("usage: fqv check <ID> [--tier quick|thorough] | fqv replay <file> | fqv selfcheck");
    std::process::exit(2);
}

fn main() {
    let args: Vec<String> = std::env::args().collect();
    if args.len() < 2 {
        usage();
    }
    // FQV_LOUD: keep the default panic printer (debugging aid: a panic of the harness itself is otherwise silent)
    if std::env::var("FQV_LOUD").is_err() {
        subject::install_panic_hook();
    }
    let verif_dir = std::env::var("VERIF_DIR").unwrap_or_else(|_| "/verif".to_string());
    match args[1].as_str() {
        "selfcheck" => match selfcheck::run(true) {
            Ok(s) => println!("{}", s.join("\n")),
            Err(e) => {
                eprintln!("MACHINERY: reference self-check failed: {}", e);
                std::process::exit(2);
            }
        },
        "bench" => {
            for nt in [1usize, 4, 8, 16] {
                std::env::set_var("FQV_THREADS", nt.to_string());
                let input = spaces::content(spaces::Family::Ctr, 2, 2000);
                let o = subject::Opts { mode: None, ecl: Some(0), version: None, mask: None, order: 0 };
                let t = std::time::Instant::now();
                pool::par_for(nt * 40, |_| { let _ = subject::build(&input, &o); });
                println!("threads {}: {:?} per build per thread", nt, t.elapsed() / 40);
            }
            let input = spaces::content(spaces::Family::Ctr, 2, 2000);
            let o = subject::Opts { mode: None, ecl: Some(0), version: None, mask: None, order: 0 };
            let t = std::time::Instant::now();
            let mut q = None;
            for _ in 0..50 { q = Some(subject::build(&input, &o)); }
            println!("build: {:?}/iter", t.elapsed() / 50);
            if let Some(subject::Outcome::Ok(q)) = q {
                let t = std::time::Instant::now();
                for _ in 0..50 { let _ = core::check_symbol(&q, &input, &o); }
                println!("check_symbol: {:?}/iter", t.elapsed() / 50);
                let vals = subject::values(&q);
                let t = std::time::Instant::now();
                for _ in 0..50 { let _ = refmodel::decode_symbol(&vals, q.size); }
                println!("decode_symbol: {:?}/iter", t.elapsed() / 50);
                let t = std::time::Instant::now();
                for _ in 0..50 { let _ = core::obs_digest(&q); }
                println!("digest: {:?}/iter", t.elapsed() / 50);
            }
        }
        "c19-child" => std::process::exit(props::c19::child_main(&args[2..])),
        "c08-child" => {
            subject::install_panic_hook();
            std::process::exit(props::c08::child_main(&args[2..]))
        }
        "pristine" => std::process::exit(props::c14::pristine_main()),
        "c14-order" => std::process::exit(props::c14::order_main(&args[2..])),
        "replay" => {
            if args.len() < 3 {
                usage();
            }
            std::process::exit(replay::main(&args[2]));
        }
        "check" => {
            if args.len() < 3 {
                usage();
            }
            let prop = args[2].clone();
            let mut tier = match std::env::var("VERIF_TIER").as_deref() {
                Ok("thorough") => Tier::Thorough,
                _ => Tier::Quick,
            };
            let mut i = 3;
            while i < args.len() {
                match args[i].as_str() {
                    "--tier" => {
                        i += 1;
                        tier = match args.get(i).map(|s| s.as_str()) {
                            Some("quick") => Tier::Quick,
                            Some("thorough") => Tier::Thorough,
                            _ => usage(),
                        };
                    }
                    _ => usage(),
                }
                i += 1;
            }
            if std::env::var("FQV_CHILD").is_err() {
                std::process::exit(supervise(&prop, tier, &verif_dir));
            }
            report::trace_open(&std::env::var("FQV_TRACE").unwrap_or_default());
            report::start_watchdog(prop.clone(), verif_dir.clone(), 90);
            let seed = std::env::var("VERIF_SEED").ok().and_then(|s| s.parse::<i64>().ok()).unwrap_or(0) as u64;
            let ctx = Ctx { prop, tier, seed, verif_dir };
            if let Err(e) = selfcheck::run(false) {
                eprintln!("MACHINERY: reference self-check failed: {}", e);
                std::process::exit(2);
            }
            let t0 = std::time::Instant::now();
            let col = match props::run(&ctx) {
                Some(c) => c,
                None => {
                    eprintln!("MACHINERY: no check for property {}", ctx.prop);
                    std::process::exit(2);
                }
            };
            if let Ok(path) = std::env::var("FQV_JSON") {
                std::process::exit(report::finish_json(&col, &path).exit_code);
            }
            release_subject_pass(&ctx, &col);
            let fin = report::finish(&ctx, &col, t0.elapsed().as_secs_f64());
            std::process::exit(fin.exit_code);
        }
        _ => usage(),
    }
}

/// Properties that are conditional on a returned symbol count a panicking build as "skipped" (the panic is C10's
/// and C05's finding). The harness compiles the subject with debug assertions and overflow checks, so a defect that
/// corrupts, say, the number of data modules trips the crate's own `debug_assert` and is never seen by the oracle of
/// the property it breaks — although a user's release build returns the broken symbol. When a check skipped cases for
/// that reason it is repeated against the subject as a release build makes it (profile `relsubject`: no debug
/// assertions, wrapping arithmetic), in a child process under a time and address-space limit, and the violations
/// found there are reported with that qualification. On a tree without panics this costs nothing.
fn release_subject_pass(ctx: &Ctx, col: &report::Collector) {
    use std::sync::atomic::Ordering;
    const CONDITIONAL: [&str; 11] = ["C01", "C02", "C03", "C04", "C05", "C06", "C08", "C09", "C11", "C15", "C16"];
    let skipped = col.skipped_panics.load(Ordering::Relaxed);
    let panics_seen = skipped > 0 || col.violations.lock().unwrap().iter().any(|v| v.key.ends_with("/panic") || v.key.contains("rejected"));
    if !CONDITIONAL.contains(&ctx.prop.as_str()) || !panics_seen || std::env::var("FQV_NO_RELPASS").is_ok() {
        return;
    }
    let dir = &ctx.verif_dir;
    let target = std::env::var("CARGO_TARGET_DIR").unwrap_or_else(|_| format!("{}/target", dir));
    let note = |col: &report::Collector, s: String| {
        eprintln!("NOTE: {}", s);
        col.set("release_subject_pass", serde_json::json!({"ran": false, "why": s}));
    };
    let b = std::process::Command::new("cargo").args(["build", "--profile", "relsubject", "--offline"]).current_dir(format!("{}/harness", dir)).output();
    match b {
        Ok(o) if o.status.success() => {}
        Ok(o) => return note(col, format!("release-subject build failed: {}", String::from_utf8_lossy(&o.stderr).lines().filter(|l| l.starts_with("error")).take(3).collect::<Vec<_>>().join(" | "))),
        Err(e) => return note(col, format!("cargo not runnable: {}", e)),
    }
    let bin = format!("{}/relsubject/fqv", target);
    let out = format!("{}/scratch/relpass-{}-{}.json", dir, ctx.prop, std::process::id());
    let limit_s: u64 = if ctx.tier.thorough() { 3 * 3600 } else { 600 };
    // address-space limit 24 GiB: a wrapped length must not take the machine down
    let cmdline = format!("ulimit -v 25165824; exec '{}' check {} --tier {}", bin, ctx.prop, ctx.tier.name());
    let child = std::process::Command::new("sh").arg("-c").arg(&cmdline).env("FQV_CHILD", "1").env("FQV_JSON", &out).env("FQV_NO_RELPASS", "1").env("FQV_TRACE", "").stdout(std::process::Stdio::null()).stderr(std::process::Stdio::null()).spawn();
    let mut child = match child {
        Ok(c) => c,
        Err(e) => return note(col, format!("cannot start the release-subject pass: {}", e)),
    };
    let t0 = std::time::Instant::now();
    let status = loop {
        match child.try_wait() {
            Ok(Some(st)) => break Some(st),
            Ok(None) if t0.elapsed().as_secs() > limit_s => {
                let _ = child.kill();
                let _ = child.wait();
                break None;
            }
            Ok(None) => std::thread::sleep(std::time::Duration::from_millis(100)),
            Err(_) => break None,
        }
    };
    let txt = std::fs::read_to_string(&out).ok();
    let _ = std::fs::remove_file(&out);
    let v: serde_json::Value = match (status, txt.and_then(|t| serde_json::from_str(&t).ok())) {
        (Some(st), Some(v)) if st.success() => v,
        (st, _) => return note(col, format!("release-subject pass did not complete (status {:?}): a release build of the subject hangs, aborts or exhausts memory on some case of this check (see C10)", st.map(|s| s.code()))),
    };
    let mut n = 0u64;
    for x in v["violations"].as_array().into_iter().flatten() {
        let key = x["key"].as_str().unwrap_or("").to_string();
        if key.ends_with("/panic") {
            continue;
        }
        let mut case = x["case"].clone();
        if case.is_object() {
            case["subject_build"] = serde_json::json!("release");
        }
        for _ in 0..x["cases"].as_u64().unwrap_or(1).min(2000) {
            col.violation((900, n), key.clone(), format!("(subject built as a release build: no debug assertions, wrapping arithmetic; the checked build panics on this case) {}", x["what"].as_str().unwrap_or("")), case.clone());
        }
        n += 1;
    }
    col.set("release_subject_pass", serde_json::json!({"ran": true, "because_skipped_subject_panics": skipped, "evaluations": v["evaluations"], "violation_keys": n, "skipped_subject_panics_there": v["skipped_subject_panics"], "wall_s": t0.elapsed().as_secs()}));
    col.space(serde_json::json!({"name": "release-subject pass", "cases": v["evaluations"], "exhaustive": true, "what": "the whole check repeated against the subject without debug assertions and overflow checks, because cases were skipped on subject panics", "violations": v["violations_total"]}));
}

/// The supervising parent: runs the check in a child process so that an abort (stack overflow,
/// allocation failure, double panic) of the subject is attributed instead of killing the verdict.
fn supervise(prop: &str, tier: Tier, verif_dir: &str) -> i32 {
    let exe = match std::env::current_exe() {
        Ok(e) => e,
        Err(e) => {
            eprintln!("MACHINERY: {}", e);
            return 2;
        }
    };
    let _ = std::fs::create_dir_all(format!("{}/scratch", verif_dir));
    let run = |threads: Option<&str>| -> (Option<i32>, Vec<String>) {
        let trace = format!("{}/scratch/trace-{}-{}.txt", verif_dir, prop, std::process::id());
        let mut cmd = std::process::Command::new(&exe);
        cmd.arg("check").arg(prop).arg("--tier").arg(tier.name());
        cmd.env("FQV_CHILD", "1").env("FQV_TRACE", &trace);
        if let Some(t) = threads {
            cmd.env("FQV_THREADS", t);
        }
        let limit = std::time::Duration::from_secs(if tier.thorough() { 8 * 3600 } else { 40 * 60 });
        let t0 = std::time::Instant::now();
        let mut child = match cmd.spawn() {
            Ok(c) => c,
            Err(e) => {
                eprintln!("MACHINERY: cannot start the check process: {}", e);
                return (Some(2), vec![]);
            }
        };
        let code = loop {
            match child.try_wait() {
                Ok(Some(st)) => break st.code(),
                Ok(None) => {
                    if t0.elapsed() > limit {
                        let _ = child.kill();
                        let _ = child.wait();
                        eprintln!("MACHINERY: check exceeded its wall-clock limit of {:?} and was stopped (not a verdict)", limit);
                        let _ = std::fs::remove_file(&trace);
                        return (Some(2), vec![]);
                    }
                    std::thread::sleep(std::time::Duration::from_millis(50));
                }
                Err(_) => break None,
            }
        };
        let inflight = report::trace_read(&trace);
        let _ = std::fs::remove_file(&trace);
        (code, inflight)
    };
    let (code, inflight) = run(None);
    if let Some(c) = code {
        if c == 0 || c == 1 || c == 2 {
            return c;
        }
    }
    // the child died: abort, signal, or a panic of the harness itself
    eprintln!("check process died (status {:?}); cases in flight: {:?}", code, inflight);
    eprintln!("re-running single-threaded to attribute the abort to one case ...");
    let (code2, inflight2) = run(Some("1"));
    let aborting_props = ["C05", "C10", "C17", "C19", "C09"];
    let (suspects, reproduced) = match code2 {
        Some(c) if c == 0 || c == 1 || c == 2 => (inflight.clone(), false),
        _ => (inflight2.clone(), true),
    };
    if aborting_props.contains(&prop) && !suspects.is_empty() {
        let rdir = format!("{}/replays", verif_dir);
        let _ = std::fs::create_dir_all(&rdir);
        let path = format!("{}/{}-abort.json", rdir, prop);
        let rep = serde_json::json!({"property": prop, "key": format!("{}/abort", prop), "what": "the process running the subject was killed (abort / stack overflow / allocation failure) instead of returning", "reproduced_single_threaded": reproduced, "case": {"kind": "abort", "in_flight": suspects}});
        let _ = std::fs::write(&path, serde_json::to_string_pretty(&rep).unwrap() + "\n");
        println!("  {}/abort: the subject aborted the process; case(s) in flight: {:?}", prop, suspects);
        println!("VIOLATION property={} replay={}", prop, path);
        return 1;
    }
    eprintln!("MACHINERY: the check process died (status {:?} / {:?}); this is not a verdict for {}; cases in flight: {:?}", code, code2, prop, suspects);
    2
}
