//! fqv: bounded exhaustive exploration of fast_qr against a reference model (see /verif/DESIGN.md)

mod core;
mod explore;
mod parse;
mod pool;
mod props;
mod refmodel;
mod replay;
mod selfcheck;
mod report;
mod spaces;
mod subject;
mod sweep;
mod util;

use report::{Ctx, Tier};

fn usage() -> ! {
    eprintln!("usage: fqv check <ID> [--tier quick|thorough] | fqv replay <file> | fqv selfcheck");
    std::process::exit(2);
}

fn main() {
    let args: Vec<String> = std::env::args().collect();
    if args.len() < 2 {
        usage();
    }
    subject::install_panic_hook();
    let verif_dir = std::env::var("VERIF_DIR").unwrap_or_else(|_| "/verif".to_string());
    match args[1].as_str() {
        "selfcheck" => match selfcheck::run(true) {
            Ok(s) => println!("{}", s.join("\n")),
            Err(e) => {
                eprintln!("MACHINERY: reference self-check failed: {}", e);
                std::process::exit(2);
            }
        },
        "bench" => {
            for nt in [1usize, 4, 8, 16] {
                std::env::set_var("FQV_THREADS", nt.to_string());
                let input = spaces::content(spaces::Family::Ctr, 2, 2000);
                let o = subject::Opts { mode: None, ecl: Some(0), version: None, mask: None };
                let t = std::time::Instant::now();
                pool::par_for(nt * 40, |_| { let _ = subject::build(&input, &o); });
                println!("threads {}: {:?} per build per thread", nt, t.elapsed() / 40);
            }
            let input = spaces::content(spaces::Family::Ctr, 2, 2000);
            let o = subject::Opts { mode: None, ecl: Some(0), version: None, mask: None };
            let t = std::time::Instant::now();
            let mut q = None;
            for _ in 0..50 { q = Some(subject::build(&input, &o)); }
            println!("build: {:?}/iter", t.elapsed() / 50);
            if let Some(subject::Outcome::Ok(q)) = q {
                let t = std::time::Instant::now();
                for _ in 0..50 { let _ = core::check_symbol(&q, &input, &o); }
                println!("check_symbol: {:?}/iter", t.elapsed() / 50);
                let vals = subject::values(&q);
                let t = std::time::Instant::now();
                for _ in 0..50 { let _ = refmodel::decode_symbol(&vals, q.size); }
                println!("decode_symbol: {:?}/iter", t.elapsed() / 50);
                let t = std::time::Instant::now();
                for _ in 0..50 { let _ = core::obs_digest(&q); }
                println!("digest: {:?}/iter", t.elapsed() / 50);
            }
        }
        "c19-child" => std::process::exit(props::c19::child_main(&args[2..])),
        "pristine" => std::process::exit(props::c14::pristine_main()),
        "replay" => {
            if args.len() < 3 {
                usage();
            }
            std::process::exit(replay::main(&args[2]));
        }
        "check" => {
            if args.len() < 3 {
                usage();
            }
            let prop = args[2].clone();
            let mut tier = match std::env::var("VERIF_TIER").as_deref() {
                Ok("thorough") => Tier::Thorough,
                _ => Tier::Quick,
            };
            let mut i = 3;
            while i < args.len() {
                match args[i].as_str() {
                    "--tier" => {
                        i += 1;
                        tier = match args.get(i).map(|s| s.as_str()) {
                            Some("quick") => Tier::Quick,
                            Some("thorough") => Tier::Thorough,
                            _ => usage(),
                        };
                    }
                    _ => usage(),
                }
                i += 1;
            }
            let seed = std::env::var("VERIF_SEED").ok().and_then(|s| s.parse::<i64>().ok()).unwrap_or(0) as u64;
            let ctx = Ctx { prop, tier, seed, verif_dir };
            if let Err(e) = selfcheck::run(false) {
                eprintln!("MACHINERY: reference self-check failed: {}", e);
                std::process::exit(2);
            }
            let t0 = std::time::Instant::now();
            let col = match props::run(&ctx) {
                Some(c) => c,
                None => {
                    eprintln!("MACHINERY: no check for property {}", ctx.prop);
                    std::process::exit(2);
                }
            };
            let fin = report::finish(&ctx, &col, t0.elapsed().as_secs_f64());
            std::process::exit(fin.exit_code);
        }
        _ => usage(),
    }
}
