//! fqv: bounded exhaustive exploration of fast_qr against a reference model (see /verif/DESIGN.md)

mod core;
mod explore;
mod parse;
mod pool;
mod props;
mod refmodel;
mod replay;
mod selfcheck;
mod report;
mod spaces;
mod subject;
mod sweep;
mod util;

use report::{Ctx, Tier};

fn usage() -> ! {
    eprintln!("usage: fqv check <ID> [--tier quick|thorough] | fqv replay <file> | fqv selfcheck");
    std::process::exit(2);
}

fn main() {
    let args: Vec<String> = std::env::args().collect();
    if args.len() < 2 {
        usage();
    }
    subject::install_panic_hook();
    let verif_dir = std::env::var("VERIF_DIR").unwrap_or_else(|_| "/verif".to_string());
    match args[1].as_str() {
        "selfcheck" => match selfcheck::run(true) {
            Ok(s) => println!("{}", s.join("\n")),
            Err(e) => {
                eprintln!("MACHINERY: reference self-check failed: {}", e);
                std::process::exit(2);
            }
        },
        "bench" => {
            for nt in [1usize, 4, 8, 16] {
                std::env::set_var("FQV_THREADS", nt.to_string());
                let input = spaces::content(spaces::Family::Ctr, 2, 2000);
                let o = subject::Opts { mode: None, ecl: Some(0), version: None, mask: None, order: 0 };
                let t = std::time::Instant::now();
                pool::par_for(nt * 40, |_| { let _ = subject::build(&input, &o); });
                println!("threads {}: {:?} per build per thread", nt, t.elapsed() / 40);
            }
            let input = spaces::content(spaces::Family::Ctr, 2, 2000);
            let o = subject::Opts { mode: None, ecl: Some(0), version: None, mask: None, order: 0 };
            let t = std::time::Instant::now();
            let mut q = None;
            for _ in 0..50 { q = Some(subject::build(&input, &o)); }
            println!("build: {:?}/iter", t.elapsed() / 50);
            if let Some(subject::Outcome::Ok(q)) = q {
                let t = std::time::Instant::now();
                for _ in 0..50 { let _ = core::check_symbol(&q, &input, &o); }
                println!("check_symbol: {:?}/iter", t.elapsed() / 50);
                let vals = subject::values(&q);
                let t = std::time::Instant::now();
                for _ in 0..50 { let _ = refmodel::decode_symbol(&vals, q.size); }
                println!("decode_symbol: {:?}/iter", t.elapsed() / 50);
                let t = std::time::Instant::now();
                for _ in 0..50 { let _ = core::obs_digest(&q); }
                println!("digest: {:?}/iter", t.elapsed() / 50);
            }
        }
        "c19-child" => std::process::exit(props::c19::child_main(&args[2..])),
        "pristine" => std::process::exit(props::c14::pristine_main()),
        "replay" => {
            if args.len() < 3 {
                usage();
            }
            std::process::exit(replay::main(&args[2]));
        }
        "check" => {
            if args.len() < 3 {
                usage();
            }
            let prop = args[2].clone();
            let mut tier = match std::env::var("VERIF_TIER").as_deref() {
                Ok("thorough") => Tier::Thorough,
                _ => Tier::Quick,
            };
            let mut i = 3;
            while i < args.len() {
                match args[i].as_str() {
                    "--tier" => {
                        i += 1;
                        tier = match args.get(i).map(|s| s.as_str()) {
                            Some("quick") => Tier::Quick,
                            Some("thorough") => Tier::Thorough,
                            _ => usage(),
                        };
                    }
                    _ => usage(),
                }
                i += 1;
            }
            if std::env::var("FQV_CHILD").is_err() {
                std::process::exit(supervise(&prop, tier, &verif_dir));
            }
            report::trace_open(&std::env::var("FQV_TRACE").unwrap_or_default());
            report::start_watchdog(prop.clone(), verif_dir.clone(), 90);
            let seed = std::env::var("VERIF_SEED").ok().and_then(|s| s.parse::<i64>().ok()).unwrap_or(0) as u64;
            let ctx = Ctx { prop, tier, seed, verif_dir };
            if let Err(e) = selfcheck::run(false) {
                eprintln!("MACHINERY: reference self-check failed: {}", e);
                std::process::exit(2);
            }
            let t0 = std::time::Instant::now();
            let col = match props::run(&ctx) {
                Some(c) => c,
                None => {
                    eprintln!("MACHINERY: no check for property {}", ctx.prop);
                    std::process::exit(2);
                }
            };
            let fin = report::finish(&ctx, &col, t0.elapsed().as_secs_f64());
            std::process::exit(fin.exit_code);
        }
        _ => usage(),
    }
}

/// The supervising parent: runs the check in a child process so that an abort (stack overflow,
/// allocation failure, double panic) of the subject is attributed instead of killing the verdict.
fn supervise(prop: &str, tier: Tier, verif_dir: &str) -> i32 {
    let exe = match std::env::current_exe() {
        Ok(e) => e,
        Err(e) => {
            eprintln!("MACHINERY: {}", e);
            return 2;
        }
    };
    let _ = std::fs::create_dir_all(format!("{}/scratch", verif_dir));
    let run = |threads: Option<&str>| -> (Option<i32>, Vec<String>) {
        let trace = format!("{}/scratch/trace-{}-{}.txt", verif_dir, prop, std::process::id());
        let mut cmd = std::process::Command::new(&exe);
        cmd.arg("check").arg(prop).arg("--tier").arg(tier.name());
        cmd.env("FQV_CHILD", "1").env("FQV_TRACE", &trace);
        if let Some(t) = threads {
            cmd.env("FQV_THREADS", t);
        }
        let limit = std::time::Duration::from_secs(if tier.thorough() { 8 * 3600 } else { 40 * 60 });
        let t0 = std::time::Instant::now();
        let mut child = match cmd.spawn() {
            Ok(c) => c,
            Err(e) => {
                eprintln!("MACHINERY: cannot start the check process: {}", e);
                return (Some(2), vec![]);
            }
        };
        let code = loop {
            match child.try_wait() {
                Ok(Some(st)) => break st.code(),
                Ok(None) => {
                    if t0.elapsed() > limit {
                        let _ = child.kill();
                        let _ = child.wait();
                        eprintln!("MACHINERY: check exceeded its wall-clock limit of {:?} and was stopped (not a verdict)", limit);
                        let _ = std::fs::remove_file(&trace);
                        return (Some(2), vec![]);
                    }
                    std::thread::sleep(std::time::Duration::from_millis(50));
                }
                Err(_) => break None,
            }
        };
        let inflight = report::trace_read(&trace);
        let _ = std::fs::remove_file(&trace);
        (code, inflight)
    };
    let (code, inflight) = run(None);
    if let Some(c) = code {
        if c == 0 || c == 1 || c == 2 {
            return c;
        }
    }
    // the child died: abort, signal, or a panic of the harness itself
    eprintln!("check process died (status {:?}); cases in flight: {:?}", code, inflight);
    eprintln!("re-running single-threaded to attribute the abort to one case ...");
    let (code2, inflight2) = run(Some("1"));
    let aborting_props = ["C05", "C10", "C17", "C19", "C09"];
    let (suspects, reproduced) = match code2 {
        Some(c) if c == 0 || c == 1 || c == 2 => (inflight.clone(), false),
        _ => (inflight2.clone(), true),
    };
    if aborting_props.contains(&prop) && !suspects.is_empty() {
        let rdir = format!("{}/replays", verif_dir);
        let _ = std::fs::create_dir_all(&rdir);
        let path = format!("{}/{}-abort.json", rdir, prop);
        let rep = serde_json::json!({"property": prop, "key": format!("{}/abort", prop), "what": "the process running the subject was killed (abort / stack overflow / allocation failure) instead of returning", "reproduced_single_threaded": reproduced, "case": {"kind": "abort", "in_flight": suspects}});
        let _ = std::fs::write(&path, serde_json::to_string_pretty(&rep).unwrap() + "\n");
        println!("  {}/abort: the subject aborted the process; case(s) in flight: {:?}", prop, suspects);
        println!("VIOLATION property={} replay={}", prop, path);
        return 1;
    }
    eprintln!("MACHINERY: the check process died (status {:?} / {:?}); this is not a verdict for {}; cases in flight: {:?}", code, code2, prop, suspects);
    2
}
