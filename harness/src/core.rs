//! The core oracle: everything that can be said about one built symbol (or one build outcome)
//! against the reference model, attributed to the property it belongs to.

use crate::refmodel as r;
use crate::refmodel::Reg;
use crate::subject::{self, Opts, Outcome};
use fast_qr::{ModuleType, QRCode};

#[derive(Clone, Debug)]
pub struct Finding {
    pub prop: &'static str,
    pub key: String,
    pub what: String,
}

fn f(prop: &'static str, key: &str, what: String) -> Finding {
    Finding {
        prop,
        key: format!("{}/{}", prop, key),
        what,
    }
}

fn reg_label_ok(reg: Reg, t: ModuleType) -> bool {
    match reg {
        Reg::Data => t == ModuleType::Data,
        Reg::Finder => t == ModuleType::FinderPattern,
        Reg::Sep => t == ModuleType::Empty,
        Reg::Timing => t == ModuleType::Timing,
        Reg::Align => t == ModuleType::Alignment,
        Reg::AlignTiming => t == ModuleType::Alignment || t == ModuleType::Timing,
        Reg::Format => t == ModuleType::Format,
        Reg::Version => t == ModuleType::Version,
        Reg::Dark => t == ModuleType::DarkModule,
    }
}

/// What the reference model expects `build` to return for (input, opts)
#[derive(Clone, Copy, PartialEq, Eq, Debug)]
pub enum Expect {
    Ok { m: usize, e: usize, v: usize },
    ErrData,
    ErrVersion,
}

pub fn expected(input: &[u8], o: &Opts) -> Expect {
    let m = o.mode.map(|m| m as usize).unwrap_or_else(|| r::auto_mode(input));
    let e = o.ecl.map(|e| e as usize).unwrap_or(2);
    match r::min_version(m, e, input.len()) {
        None => Expect::ErrData,
        Some(minv) => match o.version {
            Some(fv) if (fv as usize) < minv => Expect::ErrVersion,
            Some(fv) => Expect::Ok { m, e, v: fv as usize },
            None => Expect::Ok { m, e, v: minv },
        },
    }
}

/// Findings about the kind of outcome (C05: version selection and the two errors; C10: totality)
pub fn check_outcome(out: &Outcome, input: &[u8], o: &Opts) -> Vec<Finding> {
    let mut v = vec![];
    let exp = expected(input, o);
    match (out, exp) {
        (Outcome::Panic(msg), _) => {
            v.push(f("C10", "panic", format!("build panicked: {}", msg)));
            v.push(f("C05", "panic", format!("build panicked: {}", msg)));
        }
        (Outcome::Ok(_), Expect::Ok { .. }) => {}
        (Outcome::ErrData, Expect::ErrData) => {}
        (Outcome::ErrVersion, Expect::ErrVersion) => {}
        // over-capacity input with a forced version: no version holds the input, so no forced version is "smaller than
        // the smallest sufficient one"; the statement's clause for inputs beyond version 40 applies as it stands
        (got, exp) => {
            let key = match (got, exp) {
                (Outcome::Ok(_), Expect::ErrData) => "ok-beyond-v40-capacity",
                (Outcome::Ok(_), Expect::ErrVersion) => "ok-with-too-small-forced-version",
                (Outcome::ErrData, Expect::Ok { .. }) => "data-too-big-error-for-fitting-input",
                (Outcome::ErrVersion, Expect::Ok { .. }) => "version-too-small-error-for-sufficient-version",
                (Outcome::ErrData, Expect::ErrVersion) => "wrong-error-kind-data-for-version",
                (Outcome::ErrVersion, Expect::ErrData) => "wrong-error-kind-version-for-data",
                _ => "outcome-mismatch",
            };
            v.push(f("C05", key, format!("build returned {} but the capacity rule gives {:?}", got.tag(), exp)));
            // automatic mode: an input that fits only in its most compact mode was refused as too big: some wider
            // mode was assumed for it
            if let (Outcome::ErrData, Expect::Ok { m, e, .. }) = (got, exp) {
                if o.mode.is_none() && o.version.is_none() && m < 2 && r::min_version(2, e, input.len()).is_none() {
                    v.push(f("C09", "refused-although-compact-mode-fits", format!("automatic mode: {} characters that fit version 40 in mode {} (the most compact mode able to represent them) were refused as too big; they do not fit in Byte mode", input.len(), m)));
                }
            }
        }
    }
    v
}

/// All findings about one returned symbol
pub fn check_symbol(q: &QRCode, input: &[u8], o: &Opts) -> Vec<Finding> {
    let mut out = vec![];
    let n = q.size;
    if n < 21 || n > 177 || (n - 17) % 4 != 0 {
        out.push(f("C03", "size", format!("size {} is not 17+4v", n)));
        return out;
    }
    let v = (n - 17) / 4;
    let g = r::geo_of(v);

    // ---- C03: function patterns, tail of the backing array
    if let Some(fv) = o.version {
        if fv as usize != v {
            out.push(f("C03", "size-vs-forced-version", format!("forced version {} but side {}", fv, n)));
        }
    }
    if let Some(fv) = q.version {
        if fv as usize + 1 != v {
            out.push(f("C03", "size-vs-reported-version", format!("the symbol reports version {} but its side is {} (= version {})", fv as usize + 1, n, v)));
            out.push(f("C15", "labels-of-another-version", format!("the symbol reports version {} but its side and label map are those of version {}", fv as usize + 1, v)));
        }
    }
    if let Some(fv) = o.version {
        if fv as usize != v && q.version.map(|x| x as usize + 1) == Some(v) {
            out.push(f("C15", "labels-of-another-version", format!("version {} was forced but the side and label map are those of version {}", fv, v)));
        }
    }
    if let Some(i) = q.data[n * n..].iter().position(|m| m.0 != 0) {
        out.push(f("C03", "tail", format!("module {} outside the {}x{} square is not the default light data module (raw {:#x})", n * n + i, n, n, q.data[n * n + i].0)));
    }
    let mut bad_fn = None;
    let mut bad_label = None;
    let mut ndata = 0usize;
    for y in 0..n {
        for x in 0..n {
            let i = y * n + x;
            let m = q.data[i];
            let reg = g.reg[i];
            if reg != Reg::Version {
                if let Some(b) = g.val[i] {
                    if m.value() != b && bad_fn.is_none() {
                        bad_fn = Some((y, x, reg, b));
                    }
                }
            }
            let t = m.module_type();
            if t == ModuleType::Data {
                ndata += 1;
            }
            if !reg_label_ok(reg, t) && bad_label.is_none() {
                bad_label = Some((y, x, reg, t));
            }
        }
    }
    if let Some((y, x, reg, b)) = bad_fn {
        let k = match reg {
            Reg::Finder => "finder",
            Reg::Sep => "separator",
            Reg::Timing => "timing",
            Reg::Align | Reg::AlignTiming => "alignment",
            Reg::Dark => "dark-module",
            _ => "function",
        };
        out.push(f("C03", k, format!("v{}: module (row {}, col {}) in region {:?} should be {}", v, y, x, reg, if b { "dark" } else { "light" })));
    }
    // ---- C15: labels
    if let Some((y, x, reg, t)) = bad_label {
        out.push(f("C15", "label", format!("v{}: module (row {}, col {}) lies in ISO region {:?} but is labelled {:?}", v, y, x, reg, t)));
    }
    let want = 8 * r::total_codewords(v) + r::remainder_bits(v);
    if ndata != want {
        out.push(f("C15", "data-label-count", format!("v{}: {} modules labelled data, expected {}", v, ndata, want)));
    }

    let vals = subject::values(q);
    // ---- C04: format and version information, fields
    let (c1, c2) = r::fmt_coords(n);
    let f1 = r::read_word(&vals, n, &c1);
    let f2 = r::read_word(&vals, n, &c2);
    let mut exact = None;
    for e in 0..4 {
        for k in 0..8 {
            if r::format_word(e, k) == f1 {
                exact = Some((e, k));
            }
        }
    }
    if exact.is_none() {
        out.push(f("C04", "format-copy1", format!("format copy 1 {:015b} is not a BCH(15,5) codeword XOR 101010000010010", f1)));
    }
    if f1 != f2 {
        out.push(f("C04", "format-copies-differ", format!("format copies differ: {:015b} vs {:015b}", f1, f2)));
    }
    if v >= 7 {
        let (a, b) = r::ver_coords(n);
        let w1 = r::read_word(&vals, n, &a);
        let w2 = r::read_word(&vals, n, &b);
        let w = r::version_word(v);
        if w1 != w {
            out.push(f("C04", "version-info-upper-right", format!("v{}: version information (upper right) {:018b}, expected {:018b}", v, w1, w)));
        }
        if w2 != w {
            out.push(f("C04", "version-info-lower-left", format!("v{}: version information (lower left) {:018b}, expected {:018b}", v, w2, w)));
        }
    }
    if q.version.map(|x| x as usize + 1) != Some(v) {
        out.push(f("C04", "version-field", format!("version field {:?} but the symbol is version {}", q.version, v)));
    }
    if let Some(fv) = o.version {
        if fv as usize != v {
            out.push(f("C04", "forced-version", format!("forced version {} but the symbol is version {}", fv, v)));
        }
    }

    // ---- decode
    let d = match r::decode_symbol(&vals, n) {
        Ok(d) => d,
        Err(e) => {
            out.push(f("C01", "undecodable", e));
            return out;
        }
    };
    let (e, k, _dist) = d.fmt.unwrap();
    if let Some((ee, kk)) = exact {
        if q.ecl.map(subject::ecl_idx) != Some(ee) {
            out.push(f("C04", "ecl-field", format!("ecl field {:?} but format information says level index {}", q.ecl, ee)));
        }
        if q.mask.map(|x| x as usize) != Some(kk) {
            out.push(f("C04", "mask-field", format!("mask field {:?} but format information says mask {}", q.mask, kk)));
        }
        match o.ecl {
            Some(fe) if fe as usize != ee => out.push(f("C04", "forced-ecl", format!("forced level index {} but symbol encodes {}", fe, ee))),
            None if ee != 2 => out.push(f("C04", "default-ecl", format!("no level given: symbol encodes level index {} instead of Q", ee))),
            _ => {}
        }
        if let Some(fk) = o.mask {
            if fk as usize != kk {
                out.push(f("C04", "forced-mask", format!("forced mask {} but symbol encodes {}", fk, kk)));
            }
        }
    }

    // ---- C02: layout, remainder bits, syndromes
    if d.rem.iter().any(|&b| b) {
        out.push(f("C02", "remainder-bits", format!("v{}: remainder bits are not zero after unmasking: {:?}", v, d.rem)));
    }
    if let Some(bi) = d.syndromes_ok.iter().position(|&ok| !ok) {
        out.push(f("C02", "syndromes", format!("v{} level {}: block {} of {} (Table 9 layout, standard interleave) has non-zero syndromes", v, e, bi, d.blocks.len())));
    }

    // ---- C01: the reference decoding procedure as the statement lists it (format information, unmasking,
    // codeword read-out, de-interleaving, segment parsing): the data codewords are taken as read, without
    // leaning on error correction; whether RS decoding would have repaired them is reported as a diagnostic
    let repairable = match &d.data_corrected {
        Some(c) => r::parse_segment(c, v).map_or(false, |s| s.payload == input),
        None => false,
    };
    let note = if repairable { " (a Reed-Solomon decoder would still recover the payload: the symbol leans on its error correction)" } else { "" };
    let seg_raw = match r::parse_segment(&d.data_raw, v) {
        Err(msg) => {
            out.push(f("C01", "segment", format!("v{} level {} mask {}: {}{}", v, e, k, msg, note)));
            None
        }
        Ok(seg) => {
            if seg.payload != input {
                let p = seg.payload.iter().zip(input.iter()).position(|(a, b)| a != b);
                out.push(f("C01", "payload", format!("v{} level {} mask {}: decoded payload differs from input (decoded len {}, input len {}, first difference at {:?}){}", v, e, k, seg.payload.len(), input.len(), p, note)));
            } else if !seg.terminated {
                out.push(f("C01", "not-single-segment", "segment is not followed by a terminator: further segments would be decoded".to_string()));
            }
            Some(seg)
        }
    };

    // mode physically encoded
    let mode_sym = r::get_bits(&d.data_raw, 0, 4).and_then(|mi| match mi {
        1 => Some(0usize),
        2 => Some(1),
        4 => Some(2),
        _ => None,
    });
    match mode_sym {
        None => out.push(f("C04", "mode-indicator", "mode indicator is not one of 0001/0010/0100".to_string())),
        Some(ms) => {
            if q.mode.map(subject::mode_idx) != Some(ms) {
                out.push(f("C04", "mode-field", format!("mode field {:?} but the symbol's mode indicator says {}", q.mode, ms)));
            }
            if let Some(fm) = o.mode {
                if fm as usize != ms {
                    out.push(f("C04", "forced-mode", format!("forced mode {} but symbol encodes {}", fm, ms)));
                }
            }
        }
    }

    // ---- C09: automatic mode
    if o.mode.is_none() {
        let want = r::auto_mode(input);
        if q.mode.map(subject::mode_idx) != Some(want) {
            out.push(f("C09", "mode-field", format!("automatic mode: reported {:?}, the most compact mode able to represent the input is {}", q.mode, want)));
        }
        if mode_sym != Some(want) {
            out.push(f("C09", "mode-indicator", format!("automatic mode: symbol encodes mode {:?}, expected {}", mode_sym, want)));
        }
        match &seg_raw {
            Some(seg) if seg.payload == input => {}
            Some(_) => out.push(f("C09", "altered", "automatic mode: the decoded characters differ from the input".to_string())),
            None => out.push(f("C09", "altered", "automatic mode: the segment does not parse".to_string())),
        }
    }

    // ---- C05 / C06 need the mode in effect
    let mode_eff = o.mode.map(|m| m as usize).or(mode_sym.filter(|&m| r::mode_accepts(m, input)));
    match mode_eff {
        None => {
            out.push(f("C06", "mode", "mode indicator cannot represent the input".to_string()));
        }
        Some(m) => {
            if !r::fits(v, e, m, input.len()) {
                out.push(f("C05", "overflow", format!("symbol v{} level {} mode {} returned for {} characters: exceeds the data capacity", v, e, m, input.len())));
            } else {
                let exp = r::bitstream(input, m, v, e);
                if exp != d.data_raw {
                    let p = exp.iter().zip(d.data_raw.iter()).position(|(a, b)| a != b);
                    let bits = r::segment_bits(m, v, input.len());
                    let zone = match p {
                        Some(p) if p * 8 + 8 <= bits => "segment",
                        Some(p) if p * 8 < bits + 4 + 8 => "terminator-or-bit-padding",
                        Some(_) => "pad-codewords",
                        None => "length",
                    };
                    out.push(f("C06", zone, format!("v{} level {} mode {} len {}: data codewords differ from the 7.4 encoding at codeword {:?} (expected {} codewords, read {})", v, e, m, input.len(), p, exp.len(), d.data_raw.len())));
                }
                match o.version {
                    None => {
                        let minv = r::min_version(m, e, input.len());
                        if minv != Some(v) {
                            out.push(f("C05", "not-smallest-version", format!("automatic version {} but the smallest sufficient version for mode {} level {} len {} is {:?}", v, m, e, input.len(), minv)));
                        }
                    }
                    Some(fv) => {
                        if fv as usize != v {
                            out.push(f("C05", "forced-version-not-used", format!("forced version {} not used (got {})", fv, v)));
                        }
                    }
                }
            }
        }
    }
    out
}

/// cheap digest of the observation for distinct_nontrivial: symbol values + size
pub fn obs_digest(q: &QRCode) -> u64 {
    let n = q.size.min(177);
    let mut h = crate::util::Fnv::new();
    let raw: Vec<u8> = q.data[..n * n].iter().map(|m| m.0).collect();
    h.add(&raw);
    h.add_u64(n as u64);
    h.get()
}

/// C11's forced-mask override on one outcome (used by replay)
pub fn check_symbol_forced_mask(out: &Outcome, o: &Opts) -> Vec<(String, String)> {
    if let (Outcome::Ok(q), Some(fk)) = (out, o.mask) {
        let n = q.size;
        let vals = subject::values(q);
        let (c1, _) = r::fmt_coords(n);
        let named = r::nearest_format(r::read_word(&vals, n, &c1)).map(|x| x.1);
        if q.mask.map(|m| m as usize) != Some(fk as usize) || named != Some(fk as usize) {
            return vec![("C11/forced-mask-not-used".into(), format!("forced mask {} but the symbol reports {:?} and its format information names {:?}", fk, q.mask, named))];
        }
    }
    vec![]
}
