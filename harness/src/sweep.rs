//! E1: complete sweeps of build spaces through the core oracle

use crate::core::{self, Finding};
use crate::pool;
use crate::report::Collector;
use crate::spaces::{Case, Space};
use crate::subject::{self, Outcome};
use serde_json::json;
use std::sync::atomic::{AtomicU64, Ordering};

pub struct SweepStats {
    pub ok: u64,
    pub err_data: u64,
    pub err_version: u64,
    pub panics: u64,
}

/// Runs every case of `space`; keeps the findings whose property is in `props`.
/// `panic_is_skip`: for properties conditional on a returned symbol a subject panic is counted as
/// skipped (reported by C10), not as a violation.
pub fn run_space(
    col: &Collector,
    space_idx: u64,
    space: &Space,
    props: &[&str],
    panic_is_skip: bool,
    extra: &(dyn Fn(&Case, &[u8], &Outcome) -> Vec<Finding> + Sync),
) -> SweepStats {
    let t0 = std::time::Instant::now();
    let ok = AtomicU64::new(0);
    let ed = AtomicU64::new(0);
    let ev = AtomicU64::new(0);
    let pa = AtomicU64::new(0);
    let viol0 = col.violation_count.load(Ordering::Relaxed);
    crate::report::trace_space(space_idx);
    pool::par_for(space.cases.len(), |i| {
        let case = &space.cases[i];
        let input = case.bytes();
        crate::report::case_begin(&format!("build space={} ({}) case={} input_len={} input_head_hex={} opts={:?}", space_idx, space.name, i, input.len(), crate::util::hex(&input[..input.len().min(48)]), case.opts));
        let out = subject::build(&input, &case.opts);
        crate::report::case_end();
        {
            let o = &case.opts;
            let setters = [o.mode.is_some(), o.ecl.is_some(), o.version.is_some(), o.mask.is_some()].iter().filter(|&&x| x).count() as u64;
            col.builder_transitions.fetch_add(setters + 1, Ordering::Relaxed);
            col.builder_traces.fetch_add(1, Ordering::Relaxed);
            let key = crate::util::fnv(format!("{:?}", o).as_bytes());
            col.builder_states.lock().unwrap().insert(key);
        }
        let mut findings = core::check_outcome(&out, &input, &case.opts);
        let digest = match &out {
            Outcome::Ok(q) => {
                ok.fetch_add(1, Ordering::Relaxed);
                findings.extend(core::check_symbol(q, &input, &case.opts));
                Some(core::obs_digest(q))
            }
            Outcome::ErrData => {
                ed.fetch_add(1, Ordering::Relaxed);
                None
            }
            Outcome::ErrVersion => {
                ev.fetch_add(1, Ordering::Relaxed);
                None
            }
            Outcome::Panic(_) => {
                pa.fetch_add(1, Ordering::Relaxed);
                if panic_is_skip {
                    col.skipped_panic();
                }
                None
            }
        };
        findings.extend(extra(case, &input, &out));
        col.eval(digest);
        for fd in findings {
            if props.contains(&fd.prop) {
                col.violation(
                    (space_idx, i as u64),
                    fd.key,
                    fd.what,
                    subject::case_json(&input, &case.opts),
                );
            }
        }
    });
    let n = space.cases.len();
    if n > 0 {
        for &i in &[0, n / 2, n - 1] {
            let c = &space.cases[i];
            let b = c.bytes();
            col.sample(json!({"space": space.name, "index": i, "input": crate::util::show(&b), "input_len": b.len(), "opts": c.opts.to_json()}));
        }
    }
    if !space.exhaustive {
        col.not_exhaustive();
    }
    let st = SweepStats {
        ok: ok.load(Ordering::Relaxed),
        err_data: ed.load(Ordering::Relaxed),
        err_version: ev.load(Ordering::Relaxed),
        panics: pa.load(Ordering::Relaxed),
    };
    col.space(json!({
        "name": space.name, "what": space.describe, "cases": n, "exhaustive": space.exhaustive,
        "returned_symbol": st.ok, "err_data_too_big": st.err_data, "err_version_too_small": st.err_version,
        "subject_panics": st.panics,
        "violations": col.violation_count.load(Ordering::Relaxed) - viol0,
        "wall_s": (t0.elapsed().as_secs_f64() * 100.0).round() / 100.0,
    }));
    st
}

pub fn no_extra(_: &Case, _: &[u8], _: &Outcome) -> Vec<Finding> {
    vec![]
}

/// Build histories on one thread: every sequence of forced (version, level) builds from the list below is executed
/// on its OWN FRESH THREAD (so the per-thread history is exactly the sequence) and every build of it is judged by
/// the ordinary per-symbol oracle. Sequences: [a, b, a] for every ordered pair of distinct versions (revisit after
/// something else; large then small; small then large), every triple over eight versions, and [x, y, x] over
/// (version, level) kinds of two versions. Per-thread caches keyed too coarsely, recycled buffers and
/// most-recently-used slots show here deterministically, whatever the worker pool happens to interleave.
pub fn run_histories(col: &Collector, space_idx: u64, props: &[&str], thorough: bool) {
    use crate::refmodel as r;
    use crate::spaces::{content, Family};
    use crate::subject::Opts;
    let t0 = std::time::Instant::now();
    let mut seqs: Vec<Vec<(u8, u8)>> = vec![];
    for a in 1..=40u8 {
        for b in 1..=40u8 {
            if a != b && (thorough || (a as usize + b as usize) % 2 == 1 || a <= 12 && b <= 12) {
                let e = (a + b) % 4;
                seqs.push(vec![(a, e), (b, e), (a, e)]);
            }
        }
    }
    let set = [1u8, 2, 5, 8, 10, 12, 20, 40];
    for &x in &set {
        for &y in &set {
            for &z in &set {
                if x != y && y != z {
                    seqs.push(vec![(x, 0), (y, 1), (z, 0)]);
                }
            }
        }
    }
    for v in [5u8, 7] {
        for e1 in 0..4u8 {
            for e2 in 0..4u8 {
                if e1 != e2 {
                    seqs.push(vec![(v, e1), (v, e2), (v, e1)]);
                    seqs.push(vec![(v, e1), (v + 1, e2), (v, e1), (v + 1, e2)]);
                }
            }
        }
    }
    let viol0 = col.violation_count.load(Ordering::Relaxed);
    let builds = AtomicU64::new(0);
    pool::par_for(seqs.len(), |i| {
        let seq = seqs[i].clone();
        let res = std::thread::Builder::new()
            .stack_size(32 << 20)
            .spawn(move || {
                crate::subject::install_panic_hook();
                let mut out: Vec<(usize, Vec<u8>, Opts, Vec<Finding>, Option<u64>)> = vec![];
                for (step, &(v, e)) in seq.iter().enumerate() {
                    let len = r::cap(v as usize, e as usize, 2).min(9 + step);
                    let input = content(Family::Ctr, 2, len);
                    let o = Opts { mode: None, ecl: Some(e), version: Some(v), mask: None, order: 0 };
                    let built = subject::build(&input, &o);
                    let mut f = core::check_outcome(&built, &input, &o);
                    let mut d = None;
                    if let Outcome::Ok(q) = &built {
                        f.extend(core::check_symbol(q, &input, &o));
                        d = Some(core::obs_digest(q));
                    }
                    out.push((step, input, o, f, d));
                }
                out
            })
            .map(|h| h.join());
        match res {
            Ok(Ok(out)) => {
                for (step, input, o, f, d) in out {
                    builds.fetch_add(1, Ordering::Relaxed);
                    col.eval(d);
                    for fd in f {
                        if props.contains(&fd.prop) {
                            let mut cj = subject::case_json(&input, &o);
                            cj["kind"] = json!("build-history");
                            cj["sequence"] = json!(seqs[i].iter().map(|(v, e)| json!([v, e])).collect::<Vec<_>>());
                            cj["step"] = json!(step);
                            col.violation((space_idx, i as u64), format!("{}-after-history", fd.key), format!("build {} of the same-thread history {:?} (version, level): {}", step, seqs[i], fd.what), cj);
                        }
                    }
                }
            }
            _ => col.machinery_error(format!("history thread for {:?} could not be run", seqs[i])),
        }
    });
    // the same on ONE BUILDER: the level (and once the mode) changes between builds without a new builder; the
    // automatic version follows the level, so the side changes while the builder stays
    let payloads: Vec<Vec<u8>> = vec![content(Family::Ctr, 0, 40), content(Family::Ctr, 1, 30), content(Family::Ctr, 2, 58), content(Family::Ctr, 2, 300)];
    let mut rseqs: Vec<(usize, Vec<(u8, bool)>)> = vec![];
    for pi in 0..payloads.len() {
        for a in 0..4u8 {
            for b in 0..4u8 {
                for c in 0..4u8 {
                    if a != b {
                        rseqs.push((pi, vec![(a, false), (b, false), (c, false)]));
                        if pi < 2 {
                            rseqs.push((pi, vec![(a, false), (b, true), (c, true)]));
                        }
                    }
                }
            }
        }
    }
    let rbuilds = AtomicU64::new(0);
    pool::par_for(rseqs.len(), |i| {
        let (pi, seq) = &rseqs[i];
        let input = &payloads[*pi];
        let mut b = fast_qr::QRBuilder::new(input.clone());
        for (step, &(e, force_byte)) in seq.iter().enumerate() {
            let o = Opts { mode: if force_byte { Some(2) } else { None }, ecl: Some(e), version: None, mask: None, order: 0 };
            let built = match subject::guarded(|| {
                b.ecl(subject::ECLS[e as usize]);
                if force_byte {
                    b.mode(subject::MODES[2]);
                }
                b.build()
            }) {
                Ok(r) => subject::classify(r),
                Err(m) => Outcome::Panic(m),
            };
            rbuilds.fetch_add(1, Ordering::Relaxed);
            let mut f = core::check_outcome(&built, input, &o);
            if let Outcome::Ok(q) = &built {
                f.extend(core::check_symbol(q, input, &o));
                col.eval(Some(core::obs_digest(q)));
            } else {
                col.eval(None);
            }
            for fd in f {
                if props.contains(&fd.prop) {
                    let mut cj = subject::case_json(input, &o);
                    cj["kind"] = json!("rebuild-history");
                    cj["levels_then_force_byte"] = json!(seq.iter().map(|(e, m)| json!([e, m])).collect::<Vec<_>>());
                    cj["step"] = json!(step);
                    col.violation((space_idx, (seqs.len() + i) as u64), format!("{}-after-rebuild", fd.key), format!("build {} on one builder whose level (and mode) changed between builds {:?}: {}", step, seq, fd.what), cj);
                }
            }
        }
    });
    col.space(json!({
        "name": "S_hist", "cases": builds.load(Ordering::Relaxed) + rbuilds.load(Ordering::Relaxed), "sequences": seqs.len() + rseqs.len(), "exhaustive": true,
        "what": format!("same-thread build histories, each on its own fresh thread: [a, b, a] for {} ordered pairs of distinct versions, all triples over versions {:?} with changing neighbours, and level-changing revisits of versions 5-8; plus, on ONE builder, every sequence of three levels (first two different) for 4 payloads with automatic version (and Byte mode forced from the second build on); every build judged by the per-symbol oracle", if thorough { "all 1560" } else { "every second of the 1560 (and all with both versions <= 12)" }, set),
        "violations": col.violation_count.load(Ordering::Relaxed) - viol0,
        "wall_s": (t0.elapsed().as_secs_f64() * 100.0).round() / 100.0,
    }));
}

/// single-case replay of the two history kinds written by `run_histories`
pub fn replay_history(prop: &str, kind: &str, case: &serde_json::Value) -> Result<Vec<(String, String)>, String> {
    use crate::refmodel as r;
    use crate::spaces::{content, Family};
    use crate::subject::Opts;
    let step_want = case.get("step").and_then(|s| s.as_u64()).ok_or("no step")? as usize;
    let prop = prop.to_string();
    if kind == "build-history" {
        let seq: Vec<(u8, u8)> = case.get("sequence").and_then(|s| s.as_array()).ok_or("no sequence")?.iter().filter_map(|x| Some((x.get(0)?.as_u64()? as u8, x.get(1)?.as_u64()? as u8))).collect();
        let h = std::thread::Builder::new().stack_size(32 << 20).spawn(move || {
            crate::subject::install_panic_hook();
            let mut res = vec![];
            for (step, &(v, e)) in seq.iter().enumerate() {
                let len = r::cap(v as usize, e as usize, 2).min(9 + step);
                let input = content(Family::Ctr, 2, len);
                let o = Opts { mode: None, ecl: Some(e), version: Some(v), mask: None, order: 0 };
                let built = subject::build(&input, &o);
                let mut f = core::check_outcome(&built, &input, &o);
                if let Outcome::Ok(q) = &built {
                    f.extend(core::check_symbol(q, &input, &o));
                }
                if step == step_want {
                    res = f.into_iter().filter(|x| x.prop == prop).map(|x| (format!("{}-after-history", x.key), x.what)).collect();
                }
            }
            res
        });
        return h.map_err(|e| e.to_string())?.join().map_err(|_| "history thread panicked".to_string());
    }
    let (input, _) = subject::case_from_json(case).ok_or("malformed case")?;
    let seq: Vec<(u8, bool)> = case.get("levels_then_force_byte").and_then(|s| s.as_array()).ok_or("no sequence")?.iter().filter_map(|x| Some((x.get(0)?.as_u64()? as u8, x.get(1)?.as_bool()?))).collect();
    let mut b = fast_qr::QRBuilder::new(input.clone());
    let mut res = vec![];
    for (step, &(e, force_byte)) in seq.iter().enumerate() {
        let o = Opts { mode: if force_byte { Some(2) } else { None }, ecl: Some(e), version: None, mask: None, order: 0 };
        let built = match subject::guarded(|| {
            b.ecl(subject::ECLS[e as usize]);
            if force_byte {
                b.mode(subject::MODES[2]);
            }
            b.build()
        }) {
            Ok(r) => subject::classify(r),
            Err(m) => Outcome::Panic(m),
        };
        let mut f = core::check_outcome(&built, &input, &o);
        if let Outcome::Ok(q) = &built {
            f.extend(core::check_symbol(q, &input, &o));
        }
        if step == step_want {
            res = f.into_iter().filter(|x| x.prop == prop).map(|x| (format!("{}-after-rebuild", x.key), x.what)).collect();
        }
    }
    Ok(res)
}
