//! E1: complete sweeps of build spaces through the core oracle

use crate::core::{self, Finding};
use crate::pool;
use crate::report::Collector;
use crate::spaces::{Case, Space};
use crate::subject::{self, Outcome};
use serde_json::json;
use std::sync::atomic::{AtomicU64, Ordering};

pub struct SweepStats {
    pub ok: u64,
    pub err_data: u64,
    pub err_version: u64,
    pub panics: u64,
}

/// Runs every case of `space`; keeps the findings whose property is in `props`.
/// `panic_is_skip`: for properties conditional on a returned symbol a subject panic is counted as
/// skipped (reported by C10), not as a violation.
pub fn run_space(
    col: &Collector,
    space_idx: u64,
    space: &Space,
    props: &[&str],
    panic_is_skip: bool,
    extra: &(dyn Fn(&Case, &[u8], &Outcome) -> Vec<Finding> + Sync),
) -> SweepStats {
    let t0 = std::time::Instant::now();
    let ok = AtomicU64::new(0);
    let ed = AtomicU64::new(0);
    let ev = AtomicU64::new(0);
    let pa = AtomicU64::new(0);
    let viol0 = col.violation_count.load(Ordering::Relaxed);
    crate::report::trace_space(space_idx);
    pool::par_for(space.cases.len(), |i| {
        let case = &space.cases[i];
        let input = case.bytes();
        crate::report::case_begin(&format!("build space={} ({}) case={} input_len={} input_head_hex={} opts={:?}", space_idx, space.name, i, input.len(), crate::util::hex(&input[..input.len().min(48)]), case.opts));
        let out = subject::build(&input, &case.opts);
        crate::report::case_end();
        let mut findings = core::check_outcome(&out, &input, &case.opts);
        let digest = match &out {
            Outcome::Ok(q) => {
                ok.fetch_add(1, Ordering::Relaxed);
                findings.extend(core::check_symbol(q, &input, &case.opts));
                Some(core::obs_digest(q))
            }
            Outcome::ErrData => {
                ed.fetch_add(1, Ordering::Relaxed);
                None
            }
            Outcome::ErrVersion => {
                ev.fetch_add(1, Ordering::Relaxed);
                None
            }
            Outcome::Panic(_) => {
                pa.fetch_add(1, Ordering::Relaxed);
                if panic_is_skip {
                    col.skipped_panic();
                }
                None
            }
        };
        findings.extend(extra(case, &input, &out));
        col.eval(digest);
        for fd in findings {
            if props.contains(&fd.prop) {
                col.violation(
                    (space_idx, i as u64),
                    fd.key,
                    fd.what,
                    subject::case_json(&input, &case.opts),
                );
            }
        }
    });
    let n = space.cases.len();
    if n > 0 {
        for &i in &[0, n / 2, n - 1] {
            let c = &space.cases[i];
            let b = c.bytes();
            col.sample(json!({"space": space.name, "index": i, "input": crate::util::show(&b), "input_len": b.len(), "opts": c.opts.to_json()}));
        }
    }
    if !space.exhaustive {
        col.not_exhaustive();
    }
    let st = SweepStats {
        ok: ok.load(Ordering::Relaxed),
        err_data: ed.load(Ordering::Relaxed),
        err_version: ev.load(Ordering::Relaxed),
        panics: pa.load(Ordering::Relaxed),
    };
    col.space(json!({
        "name": space.name, "what": space.describe, "cases": n, "exhaustive": space.exhaustive,
        "returned_symbol": st.ok, "err_data_too_big": st.err_data, "err_version_too_small": st.err_version,
        "subject_panics": st.panics,
        "violations": col.violation_count.load(Ordering::Relaxed) - viol0,
        "wall_s": (t0.elapsed().as_secs_f64() * 100.0).round() / 100.0,
    }));
    st
}

pub fn no_extra(_: &Case, _: &[u8], _: &Outcome) -> Vec<Finding> {
    vec![]
}
