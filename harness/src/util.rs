//! Small helpers: hashing, hex, time

pub fn fnv(bytes: &[u8]) -> u64 {
    let mut h: u64 = 0xcbf29ce484222325;
    for &b in bytes {
        h ^= b as u64;
        h = h.wrapping_mul(0x100000001b3);
    }
    h
}

pub struct Fnv(pub u64);

impl Fnv {
    pub fn new() -> Self {
        Fnv(0xcbf29ce484222325)
    }
    pub fn add(&mut self, bytes: &[u8]) -> &mut Self {
        for &b in bytes {
            self.0 ^= b as u64;
            self.0 = self.0.wrapping_mul(0x100000001b3);
        }
        self
    }
    pub fn add_u64(&mut self, x: u64) -> &mut Self {
        self.add(&x.to_le_bytes())
    }
    pub fn add_bools(&mut self, b: &[bool]) -> &mut Self {
        for chunk in b.chunks(8) {
            let mut x = 0u8;
            for (i, &v) in chunk.iter().enumerate() {
                x |= (v as u8) << i;
            }
            self.0 ^= x as u64;
            self.0 = self.0.wrapping_mul(0x100000001b3);
        }
        self
    }
    pub fn get(&self) -> u64 {
        self.0
    }
}

pub fn hex(bytes: &[u8]) -> String {
    let mut s = String::with_capacity(bytes.len() * 2);
    for b in bytes {
        s.push_str(&format!("{:02x}", b));
    }
    s
}

pub fn unhex(s: &str) -> Option<Vec<u8>> {
    if s.len() % 2 != 0 {
        return None;
    }
    (0..s.len() / 2)
        .map(|i| u8::from_str_radix(s.get(2 * i..2 * i + 2)?, 16).ok())
        .collect()
}

/// printable rendering of an input for messages (lossy)
pub fn show(bytes: &[u8]) -> String {
    let head = &bytes[..bytes.len().min(24)];
    let mut s = String::new();
    for &b in head {
        if (0x20..0x7f).contains(&b) && b != b'"' && b != b'\\' {
            s.push(b as char);
        } else {
            s.push_str(&format!("\\x{:02x}", b));
        }
    }
    if bytes.len() > head.len() {
        s.push_str(&format!("...({} bytes)", bytes.len()));
    }
    s
}

/// xorshift64* for the supplementary seeded family
pub struct Rng(pub u64);

impl Rng {
    pub fn new(seed: u64) -> Self {
        Rng(seed.wrapping_mul(0x9E3779B97F4A7C15) ^ 0xD1B54A32D192ED03 | 1)
    }
    pub fn next(&mut self) -> u64 {
        let mut x = self.0;
        x ^= x >> 12;
        x ^= x << 25;
        x ^= x >> 27;
        self.0 = x;
        x.wrapping_mul(0x2545F4914F6CDD1D)
    }
}
