//! Worker pool: N scoped threads with large stacks pulling case indices from an atomic counter

use std::sync::atomic::{AtomicUsize, Ordering};

pub fn threads() -> usize {
    std::env::var("FQV_THREADS")
        .ok()
        .and_then(|s| s.parse().ok())
        .unwrap_or_else(|| std::thread::available_parallelism().map(|n| n.get()).unwrap_or(4))
        .max(1)
}

/// Runs f(i) for every i in 0..n on the pool. Order of execution is arbitrary; callers collect
/// results keyed by i so that reports are deterministic.
pub fn par_for<F: Fn(usize) + Sync>(n: usize, f: F) {
    let next = AtomicUsize::new(0);
    let nt = threads().min(n.max(1));
    std::thread::scope(|s| {
        for t in 0..nt {
            let next = &next;
            let f = &f;
            std::thread::Builder::new()
                .name(format!("fqv-worker-{}", t))
                .stack_size(32 << 20)
                .spawn_scoped(s, move || loop {
                    let i = next.fetch_add(1, Ordering::Relaxed);
                    if i >= n {
                        break;
                    }
                    crate::report::trace_case(t, i);
                    f(i);
                })
                .expect("spawn worker");
        }
    });
}
