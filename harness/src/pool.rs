//! Worker pool: N scoped threads with large stacks pulling case indices from an atomic counter

use std::sync::atomic::{AtomicUsize, Ordering};

pub fn threads() -> usize {
    std::env::var("FQV_THREADS")
        .ok()
        .and_then(|s| s.parse().ok())
        .unwrap_or_else(|| std::thread::available_parallelism().map(|n| n.get()).unwrap_or(4))
        .max(1)
}

/// Runs f(i) for every i in 0..n on the pool. Order of execution is arbitrary; callers collect
/// results keyed by i so that reports are deterministic.
fn gcd(a: usize, b: usize) -> usize {
    if b == 0 {
        a
    } else {
        gcd(b, a % b)
    }
}

/// The k-th case handed out is case (k * stride) mod n with a golden-ratio stride coprime to n: a fixed
/// permutation that mixes small and large cases on every worker (so that a worker has already built
/// large symbols when it builds small ones and vice versa: history-dependent defects such as a stale
/// per-thread cache get a chance to show in every sweep), while reports stay keyed by the case index.
pub fn par_for<F: Fn(usize) + Sync>(n: usize, f: F) {
    let mut stride = ((n as f64) * 0.618_033_988_75) as usize | 1;
    while n > 1 && gcd(stride, n) != 1 {
        stride += 2;
    }
    if n <= 2 {
        stride = 1;
    }
    let next = AtomicUsize::new(0);
    let nt = threads().min(n.max(1));
    std::thread::scope(|s| {
        for t in 0..nt {
            let next = &next;
            let f = &f;
            std::thread::Builder::new()
                .name(format!("fqv-worker-{}", t))
                .stack_size(32 << 20)
                .spawn_scoped(s, move || loop {
                    let k = next.fetch_add(1, Ordering::Relaxed);
                    if k >= n {
                        break;
                    }
                    let i = ((k as u128 * stride as u128) % n as u128) as usize;
                    crate::report::trace_case(t, i);
                    f(i);
                })
                .expect("spawn worker");
        }
    });
}
