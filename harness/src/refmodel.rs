//! Reference model R of ISO/IEC 18004 (model 2 QR codes), written from the standard and from first
//! principles. It shares no table and no code with fast_qr. The only tabular input is Table 9
//! (error-correction codewords per block and number of blocks); everything else is computed.
//!
//! Conventions: coordinates are (row, col) = (y, x); levels are indexed L=0, M=1, Q=2, H=3;
//! modes Numeric=0, Alphanumeric=1, Byte=2; masks 0..7; versions 1..=40.

#![allow(dead_code)]

// ---------------------------------------------------------------- GF(256) / 0x11D, bitwise

/// bitwise (shift-and-xor) multiplication modulo x^8+x^4+x^3+x^2+1: the definition
pub fn gmul_bitwise(a: u8, b: u8) -> u8 {
    let (mut a, mut b, mut r) = (a as u32, b as u32, 0u32);
    while b != 0 {
        if b & 1 != 0 {
            r ^= a;
        }
        a <<= 1;
        if a & 0x100 != 0 {
            a ^= 0x11D;
        }
        b >>= 1;
    }
    r as u8
}

struct GfTables {
    exp: [u8; 512],
    log: [u16; 256],
}

/// exp/log tables *computed* at start-up from the bitwise definition (only a speed-up; the
/// self-check compares the table product with the bitwise product on all 65 536 pairs)
fn gf_tables() -> &'static GfTables {
    static T: std::sync::OnceLock<GfTables> = std::sync::OnceLock::new();
    T.get_or_init(|| {
        let mut exp = [0u8; 512];
        let mut log = [0u16; 256];
        let mut x = 1u8;
        for i in 0..255 {
            exp[i] = x;
            log[x as usize] = i as u16;
            x = gmul_bitwise(x, 2);
        }
        for i in 255..512 {
            exp[i] = exp[i - 255];
        }
        GfTables { exp, log }
    })
}

#[inline]
pub fn gmul(a: u8, b: u8) -> u8 {
    if a == 0 || b == 0 {
        return 0;
    }
    let t = gf_tables();
    t.exp[(t.log[a as usize] + t.log[b as usize]) as usize]
}

pub fn gpow(base: u8, e: usize) -> u8 {
    let mut r = 1u8;
    for _ in 0..e {
        r = gmul(r, base);
    }
    r
}

/// alpha^e with alpha = 2
pub fn alpha(e: usize) -> u8 {
    gf_tables().exp[e % 255]
}

pub fn ginv(a: u8) -> u8 {
    assert!(a != 0);
    // a^254
    gpow(a, 254)
}

// ---------------------------------------------------------------- Reed-Solomon

/// Monic generator polynomial prod_{i<ec}(x - alpha^i), coefficients from highest degree to lowest
pub fn generator(ec: usize) -> Vec<u8> {
    let mut g = vec![1u8];
    for i in 0..ec {
        let a = alpha(i);
        let mut ng = vec![0u8; g.len() + 1];
        for (j, &c) in g.iter().enumerate() {
            ng[j] ^= c; // c * x
            ng[j + 1] ^= gmul(c, a); // c * alpha^i
        }
        g = ng;
    }
    g
}

/// Remainder of data(x) * x^ec divided by generator(ec): schoolbook long division
pub fn rs_remainder(data: &[u8], ec: usize) -> Vec<u8> {
    let g = generator(ec);
    let mut work: Vec<u8> = data.to_vec();
    work.extend(std::iter::repeat(0).take(ec));
    for i in 0..data.len() {
        let c = work[i];
        if c != 0 {
            for (j, &gj) in g.iter().enumerate() {
                work[i + j] ^= gmul(gj, c);
            }
        }
    }
    work[data.len()..].to_vec()
}

/// Remainder with a precomputed generator (fast path for big sweeps)
pub fn rs_remainder_with(data: &[u8], g: &[u8]) -> Vec<u8> {
    let ec = g.len() - 1;
    let mut work: Vec<u8> = data.to_vec();
    work.extend(std::iter::repeat(0).take(ec));
    for i in 0..data.len() {
        let c = work[i];
        if c != 0 {
            for (j, &gj) in g.iter().enumerate() {
                work[i + j] ^= gmul(gj, c);
            }
        }
    }
    work[data.len()..].to_vec()
}

/// S_j = c(alpha^j), j = 0..ec, where c[0] is the highest-degree coefficient
pub fn syndromes(block: &[u8], ec: usize) -> Vec<u8> {
    (0..ec)
        .map(|j| {
            let a = alpha(j);
            let mut s = 0u8;
            for &c in block {
                s = gmul(s, a) ^ c;
            }
            s
        })
        .collect()
}

pub fn syndromes_zero(block: &[u8], ec: usize) -> bool {
    syndromes(block, ec).iter().all(|&s| s == 0)
}

/// Standard RS decoder: Berlekamp-Massey, Chien search, error values by solving the Vandermonde
/// system; returns the corrected block or None when more than floor(ec/2) errors are present.
pub fn rs_decode(block: &[u8], ec: usize) -> Option<Vec<u8>> {
    let n = block.len();
    let s = syndromes(block, ec);
    if s.iter().all(|&x| x == 0) {
        return Some(block.to_vec());
    }
    // Berlekamp-Massey over GF(256); polynomials low degree first
    let mut c = vec![1u8];
    let mut b = vec![1u8];
    let mut l = 0usize;
    let mut m = 1usize;
    let mut bb = 1u8;
    for i in 0..ec {
        let mut d = s[i];
        for j in 1..=l {
            if j < c.len() {
                d ^= gmul(c[j], s[i - j]);
            }
        }
        if d == 0 {
            m += 1;
        } else {
            let coef = gmul(d, ginv(bb));
            let t = c.clone();
            if c.len() < b.len() + m {
                c.resize(b.len() + m, 0);
            }
            for (j, &bj) in b.iter().enumerate() {
                c[j + m] ^= gmul(coef, bj);
            }
            if 2 * l <= i {
                l = i + 1 - l;
                b = t;
                bb = d;
                m = 1;
            } else {
                m += 1;
            }
        }
    }
    while c.len() > 1 && *c.last().unwrap() == 0 {
        c.pop();
    }
    if c.len() - 1 != l || l > ec / 2 {
        return None;
    }
    // Chien search: error at power p iff Lambda(alpha^-p) = 0
    let mut powers = vec![];
    for p in 0..n {
        let xinv = alpha((255 - p % 255) % 255);
        let mut acc = 0u8;
        for &cj in c.iter().rev() {
            acc = gmul(acc, xinv) ^ cj;
        }
        if acc == 0 {
            powers.push(p);
        }
    }
    if powers.len() != l {
        return None;
    }
    // Solve sum_k e_k X_k^j = S_j, j = 0..l
    let nu = l;
    let mut mat = vec![vec![0u8; nu + 1]; nu];
    for j in 0..nu {
        for (k, &p) in powers.iter().enumerate() {
            mat[j][k] = alpha(p * j);
        }
        mat[j][nu] = s[j];
    }
    for col in 0..nu {
        let piv = (col..nu).find(|&r| mat[r][col] != 0)?;
        mat.swap(col, piv);
        let inv = ginv(mat[col][col]);
        for x in mat[col].iter_mut() {
            *x = gmul(*x, inv);
        }
        for r in 0..nu {
            if r != col && mat[r][col] != 0 {
                let f = mat[r][col];
                for x in 0..=nu {
                    let v = gmul(f, mat[col][x]);
                    mat[r][x] ^= v;
                }
            }
        }
    }
    let mut out = block.to_vec();
    for (k, &p) in powers.iter().enumerate() {
        out[n - 1 - p] ^= mat[k][nu];
    }
    if syndromes_zero(&out, ec) {
        Some(out)
    } else {
        None
    }
}

// ---------------------------------------------------------------- Table 9 (the only table)

/// EC codewords per block, [level][version]
pub const ECPB: [[usize; 41]; 4] = [
    [
        0, 7, 10, 15, 20, 26, 18, 20, 24, 30, 18, 20, 24, 26, 30, 22, 24, 28, 30, 28, 28, 28, 28,
        30, 30, 26, 28, 30, 30, 30, 30, 30, 30, 30, 30, 30, 30, 30, 30, 30, 30,
    ],
    [
        0, 10, 16, 26, 18, 24, 16, 18, 22, 22, 26, 30, 22, 22, 24, 24, 28, 28, 26, 26, 26, 26, 28,
        28, 28, 28, 28, 28, 28, 28, 28, 28, 28, 28, 28, 28, 28, 28, 28, 28, 28,
    ],
    [
        0, 13, 22, 18, 26, 18, 24, 18, 22, 20, 24, 28, 26, 24, 20, 30, 24, 28, 28, 26, 30, 28, 30,
        30, 30, 30, 28, 30, 30, 30, 30, 30, 30, 30, 30, 30, 30, 30, 30, 30, 30,
    ],
    [
        0, 17, 28, 22, 16, 22, 28, 26, 26, 24, 28, 24, 28, 22, 24, 24, 30, 28, 28, 26, 28, 30, 24,
        30, 30, 30, 30, 30, 30, 30, 30, 30, 30, 30, 30, 30, 30, 30, 30, 30, 30,
    ],
];

/// Number of EC blocks, [level][version]
pub const NBLK: [[usize; 41]; 4] = [
    [
        0, 1, 1, 1, 1, 1, 2, 2, 2, 2, 4, 4, 4, 4, 4, 6, 6, 6, 6, 7, 8, 8, 9, 9, 10, 12, 12, 12, 13,
        14, 15, 16, 17, 18, 19, 19, 20, 21, 22, 24, 25,
    ],
    [
        0, 1, 1, 1, 2, 2, 4, 4, 4, 5, 5, 5, 8, 9, 9, 10, 10, 11, 13, 14, 16, 17, 17, 18, 20, 21,
        23, 25, 26, 28, 29, 31, 33, 35, 37, 38, 40, 43, 45, 47, 49,
    ],
    [
        0, 1, 1, 2, 2, 4, 4, 6, 6, 8, 8, 8, 10, 12, 16, 12, 17, 16, 18, 21, 20, 23, 23, 25, 27, 29,
        34, 34, 35, 38, 40, 43, 45, 48, 51, 53, 56, 59, 62, 65, 68,
    ],
    [
        0, 1, 1, 2, 4, 4, 4, 5, 6, 8, 8, 11, 11, 16, 16, 18, 16, 19, 21, 25, 25, 25, 34, 30, 32,
        35, 37, 40, 42, 45, 48, 51, 54, 57, 60, 63, 66, 70, 74, 77, 81,
    ],
];

pub const ALNUM: &[u8; 45] = b"0123456789ABCDEFGHIJKLMNOPQRSTUVWXYZ $%*+-./:";

pub fn alnum_value(c: u8) -> Option<usize> {
    ALNUM.iter().position(|&a| a == c)
}

// ---------------------------------------------------------------- geometry

pub fn side(v: usize) -> usize {
    17 + 4 * v
}

/// Alignment pattern centre coordinates (Annex E), computed
pub fn align_centres(v: usize) -> Vec<usize> {
    if v == 1 {
        return vec![];
    }
    let na = v / 7 + 2;
    let step = if v == 32 {
        26
    } else {
        (v * 4 + na * 2 + 1) / (na * 2 - 2) * 2
    };
    let mut res = vec![6usize; na];
    let mut pos = (v * 4 + 10) as i64;
    for i in (1..na).rev() {
        res[i] = pos as usize;
        pos -= step as i64;
    }
    res
}

/// Number of data modules by the closed formula (function patterns subtracted)
pub fn data_modules_formula(v: usize) -> usize {
    let mut r = (16 * v + 128) * v + 64;
    if v >= 2 {
        let na = v / 7 + 2;
        r -= (25 * na - 10) * na - 55;
        if v >= 7 {
            r -= 36;
        }
    }
    r
}

pub fn total_codewords(v: usize) -> usize {
    data_modules_formula(v) / 8
}

pub fn remainder_bits(v: usize) -> usize {
    data_modules_formula(v) % 8
}

pub fn data_codewords(v: usize, e: usize) -> usize {
    total_codewords(v) - ECPB[e][v] * NBLK[e][v]
}

/// (number of short blocks, short data length, number of long blocks) ; long = short + 1
pub fn block_layout(v: usize, e: usize) -> (usize, usize, usize) {
    let total = total_codewords(v);
    let nb = NBLK[e][v];
    let ec = ECPB[e][v];
    let long = total % nb;
    let short = nb - long;
    let sl = total / nb - ec;
    (short, sl, long)
}

#[derive(Clone, Copy, PartialEq, Eq, Debug, Hash)]
pub enum Reg {
    Data,
    Finder,
    Sep,
    Timing,
    Align,
    /// alignment pattern module lying on a timing line (regions overlap in ISO)
    AlignTiming,
    Format,
    Version,
    Dark,
}

pub struct Geo {
    pub v: usize,
    pub n: usize,
    pub reg: Vec<Reg>,
    /// fixed value of function modules (None for data and format modules)
    pub val: Vec<Option<bool>>,
    /// zig-zag order of data modules
    pub zigzag: Vec<(usize, usize)>,
}

/// format bit i (0 = LSB) coordinates (row, col) for both copies, ISO Figure 25
pub fn fmt_coords(n: usize) -> (Vec<(usize, usize)>, Vec<(usize, usize)>) {
    let mut c1 = vec![];
    let mut c2 = vec![];
    for i in 0..=5 {
        c1.push((i, 8));
    }
    c1.push((7, 8));
    c1.push((8, 8));
    c1.push((8, 7));
    for i in 9..15 {
        c1.push((8, 14 - i));
    }
    for i in 0..8 {
        c2.push((8, n - 1 - i));
    }
    for i in 8..15 {
        c2.push((n - 15 + i, 8));
    }
    (c1, c2)
}

/// version-information bit i (0 = LSB) coordinates for both copies (ISO Figure 26)
pub fn ver_coords(n: usize) -> (Vec<(usize, usize)>, Vec<(usize, usize)>) {
    let mut c1 = vec![];
    let mut c2 = vec![];
    for i in 0..18 {
        c1.push((i / 3, n - 11 + i % 3)); // upper right block
        c2.push((n - 11 + i % 3, i / 3)); // lower left block
    }
    (c1, c2)
}

pub fn geo(v: usize) -> Geo {
    let n = side(v);
    let mut reg = vec![Reg::Data; n * n];
    let mut val: Vec<Option<bool>> = vec![None; n * n];
    // timing patterns: row 6 and column 6, dark on even coordinates
    for i in 0..n {
        reg[6 * n + i] = Reg::Timing;
        val[6 * n + i] = Some(i % 2 == 0);
        reg[i * n + 6] = Reg::Timing;
        val[i * n + 6] = Some(i % 2 == 0);
    }
    // alignment patterns, all centre pairs except the three that would overlap finders
    let a = align_centres(v);
    let na = a.len();
    for (i, &cy) in a.iter().enumerate() {
        for (j, &cx) in a.iter().enumerate() {
            if (i == 0 && j == 0) || (i == 0 && j == na - 1) || (i == na - 1 && j == 0) {
                continue;
            }
            for dy in -2i32..=2 {
                for dx in -2i32..=2 {
                    let y = (cy as i32 + dy) as usize;
                    let x = (cx as i32 + dx) as usize;
                    let d = dx.abs().max(dy.abs());
                    let was_t = reg[y * n + x] == Reg::Timing;
                    reg[y * n + x] = if was_t { Reg::AlignTiming } else { Reg::Align };
                    val[y * n + x] = Some(d != 1);
                }
            }
        }
    }
    // finder patterns with separators
    for &(oy, ox) in &[(0usize, 0usize), (0, n - 7), (n - 7, 0)] {
        for dy in -1i32..=7 {
            for dx in -1i32..=7 {
                let y = oy as i32 + dy;
                let x = ox as i32 + dx;
                if y < 0 || x < 0 || y >= n as i32 || x >= n as i32 {
                    continue;
                }
                let (y, x) = (y as usize, x as usize);
                if (0..=6).contains(&dy) && (0..=6).contains(&dx) {
                    let d = (dx - 3).abs().max((dy - 3).abs());
                    reg[y * n + x] = Reg::Finder;
                    val[y * n + x] = Some(d != 2);
                } else {
                    reg[y * n + x] = Reg::Sep;
                    val[y * n + x] = Some(false);
                }
            }
        }
    }
    // format information
    let (c1, c2) = fmt_coords(n);
    for &(y, x) in c1.iter().chain(c2.iter()) {
        reg[y * n + x] = Reg::Format;
        val[y * n + x] = None;
    }
    // dark module
    reg[(n - 8) * n + 8] = Reg::Dark;
    val[(n - 8) * n + 8] = Some(true);
    // version information
    if v >= 7 {
        let w = version_word(v);
        let (v1, v2) = ver_coords(n);
        for i in 0..18 {
            let b = (w >> i) & 1 == 1;
            for &(y, x) in &[v1[i], v2[i]] {
                reg[y * n + x] = Reg::Version;
                val[y * n + x] = Some(b);
            }
        }
    }
    // zig-zag
    let mut zigzag = vec![];
    let mut right = n as i32 - 1;
    let mut up = true;
    while right >= 1 {
        if right == 6 {
            right = 5;
        }
        for vert in 0..n {
            for j in 0..2 {
                let x = (right - j) as usize;
                let y = if up { n - 1 - vert } else { vert };
                if reg[y * n + x] == Reg::Data {
                    zigzag.push((y, x));
                }
            }
        }
        up = !up;
        right -= 2;
    }
    Geo {
        v,
        n,
        reg,
        val,
        zigzag,
    }
}

/// The 40 geometries, computed once
pub fn geos() -> &'static Vec<Geo> {
    static G: std::sync::OnceLock<Vec<Geo>> = std::sync::OnceLock::new();
    G.get_or_init(|| (0..=40).map(|v| geo(v.max(1))).collect())
}

pub fn geo_of(v: usize) -> &'static Geo {
    &geos()[v]
}

// ---------------------------------------------------------------- BCH

/// systematic BCH: data (dbits) followed by remainder, total bits
pub fn bch(data: u32, gen: u32, total: u32, dbits: u32) -> u32 {
    let shift = total - dbits;
    let mut r = data << shift;
    let gl = 32 - gen.leading_zeros(); // generator bit length = shift + 1
    for i in (0..dbits).rev() {
        if r & (1 << (i + shift)) != 0 {
            r ^= gen << (i + shift + 1 - gl);
        }
    }
    (data << shift) | r
}

/// level indicator bits: L=01 M=00 Q=11 H=10
pub const LEVEL_BITS: [u32; 4] = [1, 0, 3, 2];

pub fn format_word(e: usize, k: usize) -> u32 {
    bch((LEVEL_BITS[e] << 3) | k as u32, 0x537, 15, 5) ^ 0x5412
}

pub fn version_word(v: usize) -> u32 {
    bch(v as u32, 0x1F25, 18, 6)
}

// ---------------------------------------------------------------- masks (Table 10, literal)

pub fn maskbit(k: usize, i: usize, j: usize) -> bool {
    match k {
        0 => (i + j) % 2 == 0,
        1 => i % 2 == 0,
        2 => j % 3 == 0,
        3 => (i + j) % 3 == 0,
        4 => (i / 2 + j / 3) % 2 == 0,
        5 => (i * j) % 2 + (i * j) % 3 == 0,
        6 => ((i * j) % 2 + (i * j) % 3) % 2 == 0,
        7 => ((i + j) % 2 + (i * j) % 3) % 2 == 0,
        _ => panic!("mask"),
    }
}

// ---------------------------------------------------------------- bit stream (7.4)

pub fn cci(v: usize, m: usize) -> usize {
    let c = if v <= 9 {
        0
    } else if v <= 26 {
        1
    } else {
        2
    };
    [[10, 12, 14], [9, 11, 13], [8, 16, 16]][m][c]
}

pub fn payload_bits(m: usize, len: usize) -> usize {
    match m {
        0 => 10 * (len / 3) + [0, 4, 7][len % 3],
        1 => 11 * (len / 2) + 6 * (len % 2),
        _ => 8 * len,
    }
}

pub fn fits(v: usize, e: usize, m: usize, len: usize) -> bool {
    // a count that does not fit its field cannot be represented either
    let c = cci(v, m);
    if c < usize::BITS as usize && len >= (1usize << c) {
        return false;
    }
    4 + c + payload_bits(m, len) <= 8 * data_codewords(v, e)
}

/// capacity in characters
pub fn capacity(v: usize, e: usize, m: usize) -> usize {
    let mut cap = 0;
    while fits(v, e, m, cap + 1) {
        cap += 1;
    }
    cap
}

pub fn capacity_table() -> &'static Vec<usize> {
    static C: std::sync::OnceLock<Vec<usize>> = std::sync::OnceLock::new();
    C.get_or_init(|| {
        let mut t = vec![0usize; 41 * 4 * 3];
        for v in 1..=40 {
            for e in 0..4 {
                for m in 0..3 {
                    t[(v * 4 + e) * 3 + m] = capacity(v, e, m);
                }
            }
        }
        t
    })
}

pub fn cap(v: usize, e: usize, m: usize) -> usize {
    capacity_table()[(v * 4 + e) * 3 + m]
}

pub fn min_version(m: usize, e: usize, len: usize) -> Option<usize> {
    (1..=40).find(|&v| len <= cap(v, e, m))
}

pub fn mode_accepts(m: usize, input: &[u8]) -> bool {
    match m {
        0 => input.iter().all(|c| c.is_ascii_digit()),
        1 => input.iter().all(|&c| alnum_value(c).is_some()),
        _ => true,
    }
}

/// C09's literal definition
pub fn auto_mode(input: &[u8]) -> usize {
    if mode_accepts(0, input) {
        0
    } else if mode_accepts(1, input) {
        1
    } else {
        2
    }
}

pub struct BitW {
    pub b: Vec<bool>,
}

impl BitW {
    pub fn push(&mut self, v: usize, n: usize) {
        for i in (0..n).rev() {
            self.b.push((v >> i) & 1 == 1);
        }
    }
}

pub fn pack_bits(bits: &[bool]) -> Vec<u8> {
    bits.chunks(8)
        .map(|c| {
            let mut x = 0u8;
            for i in 0..8 {
                x = (x << 1) | (*c.get(i).unwrap_or(&false) as u8);
            }
            x
        })
        .collect()
}

/// number of bits of mode indicator + count + payload
pub fn segment_bits(m: usize, v: usize, len: usize) -> usize {
    4 + cci(v, m) + payload_bits(m, len)
}

/// The data codewords of the single-segment encoding of `input` (7.4.2-7.4.10)
pub fn bitstream(input: &[u8], m: usize, v: usize, e: usize) -> Vec<u8> {
    let data = data_codewords(v, e);
    let mut w = BitW { b: vec![] };
    w.push([1, 2, 4][m], 4);
    w.push(input.len(), cci(v, m));
    match m {
        0 => {
            for ch in input.chunks(3) {
                let mut x = 0usize;
                for &c in ch {
                    x = x * 10 + (c - b'0') as usize;
                }
                w.push(x, [0, 4, 7, 10][ch.len()]);
            }
        }
        1 => {
            for ch in input.chunks(2) {
                let f = |c: u8| alnum_value(c).expect("alnum");
                if ch.len() == 2 {
                    w.push(f(ch[0]) * 45 + f(ch[1]), 11);
                } else {
                    w.push(f(ch[0]), 6);
                }
            }
        }
        _ => {
            for &c in input {
                w.push(c as usize, 8);
            }
        }
    }
    assert!(w.b.len() <= data * 8, "reference: input does not fit");
    let t = (data * 8 - w.b.len()).min(4);
    w.push(0, t);
    while w.b.len() % 8 != 0 {
        w.b.push(false);
    }
    let mut bytes = pack_bits(&w.b);
    let mut i = 0;
    while bytes.len() < data {
        bytes.push([0xEC, 0x11][i % 2]);
        i += 1;
    }
    bytes
}

/// data codewords -> final codeword sequence (blocks, EC, interleave), Table 9 + 7.6
pub fn interleave(data: &[u8], v: usize, e: usize) -> Vec<u8> {
    let (short, sl, long) = block_layout(v, e);
    let ec = ECPB[e][v];
    let g = generator(ec);
    let mut blocks: Vec<(Vec<u8>, Vec<u8>)> = vec![];
    let mut off = 0;
    for b in 0..short + long {
        let l = if b < short { sl } else { sl + 1 };
        let d = data[off..off + l].to_vec();
        off += l;
        let r = rs_remainder_with(&d, &g);
        blocks.push((d, r));
    }
    assert_eq!(off, data.len());
    let mut out = vec![];
    for i in 0..sl + 1 {
        for (d, _) in &blocks {
            if i < d.len() {
                out.push(d[i]);
            }
        }
    }
    for i in 0..ec {
        for (_, r) in &blocks {
            out.push(r[i]);
        }
    }
    out
}

/// reverse of `interleave`: codeword sequence -> raw blocks (data followed by ec)
pub fn deinterleave(cw: &[u8], v: usize, e: usize) -> Vec<Vec<u8>> {
    let (short, sl, long) = block_layout(v, e);
    let nb = short + long;
    let ec = ECPB[e][v];
    let mut blocks: Vec<Vec<u8>> = vec![vec![]; nb];
    let mut idx = 0;
    for i in 0..sl + 1 {
        for (b, blk) in blocks.iter_mut().enumerate() {
            if i < sl || b >= short {
                blk.push(cw[idx]);
                idx += 1;
            }
        }
    }
    for _ in 0..ec {
        for blk in blocks.iter_mut() {
            blk.push(cw[idx]);
            idx += 1;
        }
    }
    assert_eq!(idx, cw.len());
    blocks
}

// ---------------------------------------------------------------- full symbol encoder

/// R.enc: the module values of the symbol for (input, mode, level, version, mask)
pub fn encode_symbol(input: &[u8], m: usize, e: usize, v: usize, k: usize) -> Vec<bool> {
    let data = bitstream(input, m, v, e);
    encode_symbol_from_data(&data, e, v, k)
}

pub fn encode_symbol_from_data(data: &[u8], e: usize, v: usize, k: usize) -> Vec<bool> {
    let g = geo_of(v);
    let n = g.n;
    let cw = interleave(data, v, e);
    let mut out = vec![false; n * n];
    for i in 0..n * n {
        if let Some(b) = g.val[i] {
            out[i] = b;
        }
    }
    for (i, &(y, x)) in g.zigzag.iter().enumerate() {
        let bit = if i / 8 < cw.len() {
            (cw[i / 8] >> (7 - i % 8)) & 1 == 1
        } else {
            false
        };
        out[y * n + x] = bit ^ maskbit(k, y, x);
    }
    let w = format_word(e, k);
    let (c1, c2) = fmt_coords(n);
    for i in 0..15 {
        let b = (w >> i) & 1 == 1;
        out[c1[i].0 * n + c1[i].1] = b;
        out[c2[i].0 * n + c2[i].1] = b;
    }
    out
}

// ---------------------------------------------------------------- full symbol decoder

#[derive(Debug, Clone)]
pub struct Segment {
    pub mode: usize,
    pub count: usize,
    pub payload: Vec<u8>,
    /// bits consumed by indicator + count + payload
    pub bits_used: usize,
    /// true when the segment is followed by 0000 or by fewer than 4 bits (all of them zero)
    pub terminated: bool,
}

#[derive(Debug, Clone)]
pub struct Decoded {
    pub n: usize,
    pub v: usize,
    pub fmt1: u32,
    pub fmt2: u32,
    /// (level, mask, hamming distance) decoded from format copy 1 (nearest valid word, <= 3 errors)
    pub fmt: Option<(usize, usize, u32)>,
    pub ver1: Option<u32>,
    pub ver2: Option<u32>,
    /// codewords read in zig-zag order after unmasking
    pub codewords: Vec<u8>,
    /// remainder bits after unmasking
    pub rem: Vec<bool>,
    pub blocks: Vec<Vec<u8>>,
    pub syndromes_ok: Vec<bool>,
    /// data codewords taken from the raw blocks (no error correction)
    pub data_raw: Vec<u8>,
    /// data codewords after RS error correction of each block (None if some block is uncorrectable)
    pub data_corrected: Option<Vec<u8>>,
}

pub fn read_word(vals: &[bool], n: usize, coords: &[(usize, usize)]) -> u32 {
    coords
        .iter()
        .enumerate()
        .fold(0u32, |a, (i, &(y, x))| a | ((vals[y * n + x] as u32) << i))
}

pub fn nearest_format(w: u32) -> Option<(usize, usize, u32)> {
    let mut best: Option<(usize, usize, u32)> = None;
    for e in 0..4 {
        for k in 0..8 {
            let d = (format_word(e, k) ^ w).count_ones();
            if d <= 3 && best.map_or(true, |b| d < b.2) {
                best = Some((e, k, d));
            }
        }
    }
    best
}

/// R.dec up to data codewords. `vals` are the n*n module values (row-major)
pub fn decode_symbol(vals: &[bool], n: usize) -> Result<Decoded, String> {
    if n < 21 || n > 177 || (n - 17) % 4 != 0 {
        return Err(format!("side {} is not 17+4v", n));
    }
    let v = (n - 17) / 4;
    let g = geo_of(v);
    let (c1, c2) = fmt_coords(n);
    let fmt1 = read_word(vals, n, &c1);
    let fmt2 = read_word(vals, n, &c2);
    let fmt = nearest_format(fmt1).or_else(|| nearest_format(fmt2));
    let (ver1, ver2) = if v >= 7 {
        let (a, b) = ver_coords(n);
        (Some(read_word(vals, n, &a)), Some(read_word(vals, n, &b)))
    } else {
        (None, None)
    };
    let (e, k, _) = match fmt {
        Some(f) => f,
        None => {
            return Err(format!(
                "format information undecodable: copy1 {:015b} copy2 {:015b}",
                fmt1, fmt2
            ))
        }
    };
    let total = total_codewords(v);
    let bits: Vec<bool> = g
        .zigzag
        .iter()
        .map(|&(y, x)| vals[y * n + x] ^ maskbit(k, y, x))
        .collect();
    let codewords = pack_bits(&bits[..total * 8]);
    let rem = bits[total * 8..].to_vec();
    let blocks = deinterleave(&codewords, v, e);
    let ec = ECPB[e][v];
    let syndromes_ok: Vec<bool> = blocks.iter().map(|b| syndromes_zero(b, ec)).collect();
    let mut data_raw = vec![];
    for b in &blocks {
        data_raw.extend_from_slice(&b[..b.len() - ec]);
    }
    let mut data_corrected = Some(vec![]);
    for (i, b) in blocks.iter().enumerate() {
        if syndromes_ok[i] {
            if let Some(d) = data_corrected.as_mut() {
                d.extend_from_slice(&b[..b.len() - ec]);
            }
        } else {
            match rs_decode(b, ec) {
                Some(c) => {
                    if let Some(d) = data_corrected.as_mut() {
                        d.extend_from_slice(&c[..c.len() - ec]);
                    }
                }
                None => data_corrected = None,
            }
        }
    }
    Ok(Decoded {
        n,
        v,
        fmt1,
        fmt2,
        fmt,
        ver1,
        ver2,
        codewords,
        rem,
        blocks,
        syndromes_ok,
        data_raw,
        data_corrected,
    })
}

pub fn get_bits(data: &[u8], pos: usize, n: usize) -> Option<usize> {
    if pos + n > data.len() * 8 {
        return None;
    }
    let mut x = 0usize;
    for i in pos..pos + n {
        x = (x << 1) | ((data[i / 8] >> (7 - i % 8)) & 1) as usize;
    }
    Some(x)
}

/// Parses the first segment of a data codeword sequence (7.4): indicator, count, payload
pub fn parse_segment(data: &[u8], v: usize) -> Result<Segment, String> {
    let mi = get_bits(data, 0, 4).ok_or("no mode indicator")?;
    let m = match mi {
        1 => 0,
        2 => 1,
        4 => 2,
        _ => return Err(format!("mode indicator {:04b} is not numeric/alphanumeric/byte", mi)),
    };
    let cw = cci(v, m);
    let count = get_bits(data, 4, cw).ok_or("truncated count")?;
    let mut pos = 4 + cw;
    let mut payload = Vec::with_capacity(count);
    match m {
        0 => {
            let mut left = count;
            while left > 0 {
                let (digits, width) = match left {
                    1 => (1, 4),
                    2 => (2, 7),
                    _ => (3, 10),
                };
                let x = get_bits(data, pos, width).ok_or("truncated numeric payload")?;
                pos += width;
                let lim = [0, 10, 100, 1000][digits];
                if x >= lim {
                    return Err(format!("numeric group value {} out of range for {} digits", x, digits));
                }
                let s = format!("{:0width$}", x, width = digits);
                payload.extend_from_slice(s.as_bytes());
                left -= digits;
            }
        }
        1 => {
            let mut left = count;
            while left > 0 {
                if left >= 2 {
                    let x = get_bits(data, pos, 11).ok_or("truncated alphanumeric payload")?;
                    pos += 11;
                    if x >= 45 * 45 {
                        return Err(format!("alphanumeric pair value {} out of range", x));
                    }
                    payload.push(ALNUM[x / 45]);
                    payload.push(ALNUM[x % 45]);
                    left -= 2;
                } else {
                    let x = get_bits(data, pos, 6).ok_or("truncated alphanumeric payload")?;
                    pos += 6;
                    if x >= 45 {
                        return Err(format!("alphanumeric value {} out of range", x));
                    }
                    payload.push(ALNUM[x]);
                    left -= 1;
                }
            }
        }
        _ => {
            for _ in 0..count {
                let x = get_bits(data, pos, 8).ok_or("truncated byte payload")?;
                pos += 8;
                payload.push(x as u8);
            }
        }
    }
    let spare = data.len() * 8 - pos;
    let t = spare.min(4);
    let terminated = get_bits(data, pos, t) == Some(0);
    Ok(Segment {
        mode: m,
        count,
        payload,
        bits_used: pos,
        terminated,
    })
}

// ---------------------------------------------------------------- penalty (as the crate documents it)

/// Penalty of a candidate: `vals[i]` module value, `enc[i]` true for encoding-region (data/EC/
/// remainder) modules. Returns (lower, upper): an interval only when the dark ratio is exactly a
/// multiple of 5 % away from 50 % (the documented wording does not say which band the edge is in).
pub fn penalty(vals: &[bool], enc: &[bool], n: usize) -> (u32, u32) {
    let mut s = 0u32;
    let line = |get: &dyn Fn(usize) -> (bool, bool)| -> u32 {
        let mut s = 0u32;
        let mut i = 0;
        while i < n {
            let (v0, e0) = get(i);
            if !e0 {
                i += 1;
                continue;
            }
            let mut j = i;
            while j < n {
                let (vj, ej) = get(j);
                if !ej || vj != v0 {
                    break;
                }
                j += 1;
            }
            let len = (j - i) as u32;
            if len >= 5 {
                s += len - 2;
            }
            i = j;
        }
        const PAT: [bool; 7] = [true, false, true, true, true, false, true];
        if n >= 7 {
            for i in 0..=n - 7 {
                let mut ok = true;
                for d in 0..7 {
                    let (vv, ee) = get(i + d);
                    if !ee || vv != PAT[d] {
                        ok = false;
                        break;
                    }
                }
                if ok {
                    s += 40;
                }
            }
        }
        s
    };
    for r in 0..n {
        s += line(&|c| (vals[r * n + c], enc[r * n + c]));
    }
    for c in 0..n {
        s += line(&|r| (vals[r * n + c], enc[r * n + c]));
    }
    for r in 0..n - 1 {
        for c in 0..n - 1 {
            let idx = [r * n + c, r * n + c + 1, (r + 1) * n + c, (r + 1) * n + c + 1];
            if idx.iter().all(|&i| enc[i]) && idx.iter().all(|&i| vals[i] == vals[idx[0]]) {
                s += 3;
            }
        }
    }
    let dark = vals.iter().filter(|&&b| b).count() as i64;
    let nn = (n * n) as i64;
    let num = (100 * dark - 50 * nn).abs();
    let steps = num / (5 * nn);
    let hi = s + 10 * steps as u32;
    let on_edge = num % (5 * nn) == 0 && steps > 0;
    let lo = if on_edge { hi - 10 } else { hi };
    (lo, hi)
}

// ---------------------------------------------------------------- self-check of R (no subject involved)

pub fn selfcheck_internal(full: bool) -> Result<String, String> {
    // 0. table product == bitwise product on all pairs
    for a in 0..=255u8 {
        for b in 0..=255u8 {
            if gmul(a, b) != gmul_bitwise(a, b) {
                return Err(format!("gmul table mismatch at {} * {}", a, b));
            }
        }
    }
    // 1. counted data modules == closed formula, zig-zag covers each data module once
    for v in 1..=40 {
        let g = geo_of(v);
        let counted = g.reg.iter().filter(|&&r| r == Reg::Data).count();
        if counted != data_modules_formula(v) {
            return Err(format!("v{}: counted {} data modules, formula {}", v, counted, data_modules_formula(v)));
        }
        if g.zigzag.len() != counted {
            return Err(format!("v{}: zigzag {} != {}", v, g.zigzag.len(), counted));
        }
        let mut seen = std::collections::HashSet::new();
        for &p in &g.zigzag {
            if !seen.insert(p) {
                return Err(format!("v{}: zigzag repeats {:?}", v, p));
            }
        }
        for e in 0..4 {
            let (short, sl, long) = block_layout(v, e);
            if short * sl + long * (sl + 1) != data_codewords(v, e) {
                return Err(format!("v{} e{}: block layout inconsistent", v, e));
            }
        }
    }
    // 2. BCH words: 32 distinct format words with min distance >= 7 before masking; version words distance 8
    let fw: Vec<u32> = (0..4).flat_map(|e| (0..8).map(move |k| format_word(e, k))).collect();
    for i in 0..32 {
        for j in 0..i {
            if (fw[i] ^ fw[j]).count_ones() < 7 {
                return Err("format words not a distance-7 code".into());
            }
        }
    }
    if format_word(1, 0) != 0b101010000010010 {
        return Err("format word (M,0) should equal the mask pattern itself".into());
    }
    let vw: Vec<u32> = (7..=40).map(version_word).collect();
    for i in 0..vw.len() {
        for j in 0..i {
            if (vw[i] ^ vw[j]).count_ones() < 8 {
                return Err("version words not a distance-8 code".into());
            }
        }
    }
    if version_word(7) != 0x07C94 {
        return Err(format!("version word 7 = {:#x}", version_word(7)));
    }
    // 3. RS: remainder makes zero syndromes; decoder corrects t and rejects garbage
    let mut shapes = std::collections::BTreeSet::new();
    for v in 1..=40 {
        for e in 0..4 {
            let (short, sl, long) = block_layout(v, e);
            if short > 0 {
                shapes.insert((sl, ECPB[e][v]));
            }
            if long > 0 {
                shapes.insert((sl + 1, ECPB[e][v]));
            }
        }
    }
    for &(dl, ec) in &shapes {
        let data: Vec<u8> = (0..dl).map(|i| ((i * 37 + dl * 11 + ec) % 256) as u8).collect();
        let r = rs_remainder(&data, ec);
        let mut block = data.clone();
        block.extend_from_slice(&r);
        if !syndromes_zero(&block, ec) {
            return Err(format!("shape ({},{}) remainder does not zero the syndromes", dl, ec));
        }
        let t = ec / 2;
        let mut bad = block.clone();
        for i in 0..t {
            let pos = (i * 7919 + 3) % block.len();
            bad[pos] ^= (1 + (i * 53) % 255) as u8;
        }
        match rs_decode(&bad, ec) {
            Some(c) if c == block => {}
            _ => return Err(format!("shape ({},{}) decoder failed on <= t errors", dl, ec)),
        }
        // t+1 distinct positions: must not return the original block
        let mut bad2 = block.clone();
        let mut used = std::collections::BTreeSet::new();
        let mut i = 0;
        while used.len() < t + 1 {
            let pos = (i * 7919 + 3) % block.len();
            i += 1;
            if used.insert(pos) {
                bad2[pos] ^= 0x5A;
            }
        }
        if let Some(c) = rs_decode(&bad2, ec) {
            if c == block {
                return Err(format!("shape ({},{}) decoder 'corrected' t+1 errors", dl, ec));
            }
        }
    }
    // 4. enc/dec round trip on all cells at three lengths
    let mut cells = 0usize;
    for v in 1..=40 {
        if !full && ![1, 2, 7, 14, 27, 32, 40].contains(&v) {
            continue;
        }
        for e in 0..4 {
            for k in 0..8 {
                for m in 0..3 {
                    let c = cap(v, e, m);
                    for len in [0usize, c / 2, c] {
                        let input = crate::spaces::content(crate::spaces::Family::Ctr, m, len);
                        let vals = encode_symbol(&input, m, e, v, k);
                        let d = decode_symbol(&vals, side(v))?;
                        if d.fmt != Some((e, k, 0)) || d.fmt1 != d.fmt2 {
                            return Err(format!("roundtrip format v{} e{} k{}", v, e, k));
                        }
                        if !d.syndromes_ok.iter().all(|&x| x) || d.rem.iter().any(|&b| b) {
                            return Err(format!("roundtrip syndromes v{} e{} k{}", v, e, k));
                        }
                        let seg = parse_segment(&d.data_raw, v)?;
                        if seg.mode != m || seg.payload != input || !seg.terminated {
                            return Err(format!("roundtrip payload v{} e{} k{} m{} len{}", v, e, k, m, len));
                        }
                        cells += 1;
                    }
                }
            }
        }
    }
    Ok(format!("R self-check ok: 40 geometries, {} block shapes, {} enc/dec cells", shapes.len(), cells))
}
