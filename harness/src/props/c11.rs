//! C11: the automatic mask minimises the documented penalty over all eight candidates (hook H2)

use crate::pool;
use crate::refmodel as r;
use crate::refmodel::Reg;
use crate::report::{Collector, Ctx};
use crate::spaces::{self, content, Case, Family, Space};
use crate::subject::{self, Opts, Outcome};
use fast_qr::verif;
use serde_json::{json, Value};
use std::sync::atomic::{AtomicU64, Ordering};

/// selection instances decided black-box because the recorder was not reached
pub static BLACKBOX: AtomicU64 = AtomicU64::new(0);

pub struct Selection {
    pub emitted: usize,
    /// (lo, hi) documented penalty of candidate k
    pub pens: [(u32, u32); 8],
    /// score the crate ranked candidate k by (diagnostic only)
    pub used: [u32; 8],
}

/// Builds with automatic mask while recording the candidates; returns findings (key, what) and the selection
pub fn check_selection(input: &[u8], o: &Opts) -> (Vec<(String, String)>, Option<Selection>, Option<u64>) {
    check_selection_with(input, &|| subject::build(input, o))
}

/// what happens on the thread / builder before the automatic build that is judged
#[derive(Clone, Copy, Debug, PartialEq)]
pub enum Prelude {
    /// forced-mask builds of the same payload with masks 0 and 7 on fresh builders, then the automatic build
    ForcedBefore,
    /// one builder: build at another level, set the level wanted, build again (the second build is judged)
    SameBuilderOtherLevel,
    /// one builder: build, change the mode to Byte, build again (the second build is judged)
    SameBuilderOtherMode,
}

/// "A forced mask always overrides the selection", also on a builder that has already built with automatic
/// selection: build(), mask(k), build() must emit mask k (reported and named in the format information)
pub fn check_forced_after_auto(input: &[u8], e: u8, k: u8) -> Vec<(String, String)> {
    use crate::subject::{classify, guarded, ECLS, MASKS};
    let mut b = fast_qr::QRBuilder::new(input.to_vec());
    let r = guarded(|| {
        b.ecl(ECLS[e as usize]);
        let _ = b.build();
        b.mask(MASKS[k as usize]);
        b.build()
    });
    let out = match r {
        Ok(r) => classify(r),
        Err(m) => Outcome::Panic(m),
    };
    crate::core::check_symbol_forced_mask(&out, &Opts { mode: None, ecl: Some(e), version: None, mask: Some(k), order: 0 }).into_iter().map(|(key, w)| (key.replace("C11/", ""), w)).collect()
}

/// the judged automatic build of (input, level e) after a prelude on the same thread
pub fn check_selection_after(input: &[u8], e: u8, pre: Prelude) -> (Vec<(String, String)>, Option<Selection>, Option<u64>) {
    use crate::subject::{classify, guarded, ECLS, MODES};
    match pre {
        Prelude::ForcedBefore => {
            for k in [0u8, 7] {
                let _ = subject::build(input, &Opts { mode: None, ecl: Some(e), version: None, mask: Some(k), order: 0 });
            }
            check_selection_with(input, &|| subject::build(input, &Opts { mode: None, ecl: Some(e), version: None, mask: None, order: 0 }))
        }
        Prelude::SameBuilderOtherLevel | Prelude::SameBuilderOtherMode => {
            let b = std::cell::RefCell::new(fast_qr::QRBuilder::new(input.to_vec()));
            let first = guarded(|| {
                let mut g = b.borrow_mut();
                if pre == Prelude::SameBuilderOtherLevel {
                    g.ecl(ECLS[((e + 1) % 4) as usize]);
                } else {
                    g.ecl(ECLS[e as usize]);
                }
                g.build().map(|_| ())
            });
            if first.is_err() {
                return (vec![], None, None);
            }
            check_selection_with(input, &|| {
                match guarded(|| {
                    let mut g = b.borrow_mut();
                    if pre == Prelude::SameBuilderOtherLevel {
                        g.ecl(ECLS[e as usize]);
                    } else {
                        g.mode(MODES[2]);
                    }
                    g.build()
                }) {
                    Ok(r) => classify(r),
                    Err(m) => Outcome::Panic(m),
                }
            })
        }
    }
}

/// documented penalty (upper reading) of each of the eight candidates of (input, mode m, level e, version v), by R alone
pub fn documented_penalties(input: &[u8], m: usize, e: usize, v: usize) -> [i64; 8] {
    let g = r::geo_of(v);
    let n = g.n;
    let enc: Vec<bool> = g.reg.iter().map(|&x| x == Reg::Data).collect();
    let mut pens = [0i64; 8];
    for j in 0..8 {
        let mut vals = r::encode_symbol(input, m, e, v, j);
        for i in 0..n * n {
            if g.reg[i] == Reg::Format {
                vals[i] = false;
            }
        }
        pens[j] = r::penalty(&vals, &enc, n).1 as i64;
    }
    pens
}

/// Version-1 and version-2 payloads (byte mode, level L, full capacity) one of whose candidates has a documented
/// penalty of exactly 0, found by a deterministic hill climb with R: start from diagonal stripes of width two in
/// candidate k (no run of five, no 2x2 block, no 1011101 window, half dark), flip payload bits while the penalty of
/// candidate k does not grow. A selection that uses 0 (or any other penalty value) as a marker shows here only.
pub fn zero_penalty_payloads() -> Vec<Vec<u8>> {
    let combos: Vec<(usize, usize, u64)> = (0..8usize).flat_map(|k| (0..6u64).map(move |variant| (1usize, k, variant))).chain((0..8usize).map(|k| (2usize, k, 0u64))).collect();
    let found: std::sync::Mutex<Vec<Vec<u8>>> = std::sync::Mutex::new(vec![]);
    pool::par_for(combos.len(), |ci| {
        let (v, k, variant) = combos[ci];
        let e = 0usize;
        let g = r::geo_of(v);
        let n = g.n;
        let enc: Vec<bool> = g.reg.iter().map(|&x| x == Reg::Data).collect();
        let pen_k = |p: &[u8]| -> u32 {
            let mut vals = r::encode_symbol(p, 2, e, v, k);
            for i in 0..n * n {
                if g.reg[i] == Reg::Format {
                    vals[i] = false;
                }
            }
            r::penalty(&vals, &enc, n).1
        };
        let (a, b) = (if variant % 2 == 0 { 1usize } else { 3 }, (variant / 2) as usize);
        let wanted = move |y: usize, x: usize| -> Option<bool> { Some((x + a * y + b) % 4 < 2) };
        let mut p = spaces::payload_for_candidate(v, e, k, 7 + variant, &wanted);
        let mut best = pen_k(&p);
        let mut rng = 0x9E37_79B9_7F4A_7C15u64 ^ ((v as u64) << 32) ^ ((k as u64) << 8) ^ variant;
        let mut next = || {
            rng ^= rng << 13;
            rng ^= rng >> 7;
            rng ^= rng << 17;
            rng
        };
        let bits = p.len() * 8;
        for _ in 0..30000 {
            if best == 0 {
                break;
            }
            // one bit, sometimes two (a plateau of single flips is left by a pair)
            let b1 = (next() % bits as u64) as usize;
            let b2 = if next() % 3 == 0 { Some((next() % bits as u64) as usize) } else { None };
            p[b1 / 8] ^= 1 << (b1 % 8);
            if let Some(b2) = b2 {
                p[b2 / 8] ^= 1 << (b2 % 8);
            }
            let now = pen_k(&p);
            if now <= best {
                best = now;
            } else {
                p[b1 / 8] ^= 1 << (b1 % 8);
                if let Some(b2) = b2 {
                    p[b2 / 8] ^= 1 << (b2 % 8);
                }
            }
        }
        if std::env::var("FQV_C11_DEBUG").is_ok() {
            eprintln!("ZERO-SEARCH v{} k{} variant {} best {}", v, k, variant, best);
        }
        if best == 0 {
            found.lock().unwrap().push(p);
        }
    });
    let mut out = found.into_inner().unwrap();
    out.sort();
    out.dedup();
    out
}

pub fn check_selection_with(input: &[u8], build: &dyn Fn() -> Outcome) -> (Vec<(String, String)>, Option<Selection>, Option<u64>) {
    let mut out = vec![];
    verif::record_candidates(true);
    let res = build();
    let cands = verif::take_candidates();
    verif::record_candidates(false);
    let q = match res {
        Outcome::Ok(q) => q,
        _ => return (out, None, None),
    };
    let digest = crate::core::obs_digest(&q);
    let n = q.size;
    if n < 21 || n > 177 || (n - 17) % 4 != 0 {
        return (out, None, Some(digest));
    }
    let v = (n - 17) / 4;
    let g = r::geo_of(v);
    let emitted = match q.mask {
        Some(k) => k as usize,
        None => {
            out.push(("no-mask-reported".into(), "automatic build reports no mask".into()));
            return (out, None, Some(digest));
        }
    };
    let covers = {
        let mut seen = [false; 8];
        for c in &cands {
            seen[c.mask as usize & 7] = true;
        }
        cands.len() == 8 && seen.iter().all(|&s| s)
    };
    if !covers {
        // the recorder was not reached once per mask (hook H2 removed, the loop restructured, or a search that gives up
        // on candidates which cannot win any more - which the property permits): decide black-box.
        // Candidate k = the forced-mask-k build with its format modules blanked, which is how the crate
        // prepares candidates at the pinned commit (format information is written after the selection).
        BLACKBOX.fetch_add(1, Ordering::Relaxed);
        let enc: Vec<bool> = g.reg.iter().map(|&x| x == Reg::Data).collect();
        let mut pens = [(0u32, 0u32); 8];
        for k in 0..8usize {
            let fo = Opts { mask: Some(k as u8), version: Some(v as u8), ecl: q.ecl.map(|e| subject::ecl_idx(e) as u8), mode: q.mode.map(|m| subject::mode_idx(m) as u8), order: 0 };
            match subject::build(input, &fo) {
                Outcome::Ok(qk) if qk.size == n => {
                    let mut vals = subject::values(&qk);
                    for i in 0..n * n {
                        if g.reg[i] == Reg::Format {
                            vals[i] = false;
                        }
                    }
                    pens[k] = r::penalty(&vals, &enc, n);
                }
                _ => return (out, None, Some(digest)),
            }
        }
        let min_hi = pens.iter().map(|p| p.1).min().unwrap();
        if pens[emitted].0 > min_hi {
            let best = pens.iter().position(|p| p.1 == min_hi).unwrap();
            out.push(("not-minimal".into(), format!("v{}: emitted mask {} has documented penalty {} but mask {} has {} (all eight, black-box: {:?})", v, emitted, pens[emitted].0, best, min_hi, pens.iter().map(|p| p.1).collect::<Vec<_>>())));
        }
        return (out, Some(Selection { emitted, pens, used: [0; 8] }), Some(digest));
    }
    let enc: Vec<bool> = g.reg.iter().map(|&x| x == Reg::Data).collect();
    let mut pens = [(0u32, 0u32); 8];
    let mut used = [0u32; 8];
    let mut unmasked0: Option<Vec<bool>> = None;
    for c in &cands {
        let k = c.mask as usize;
        if c.matrix.size != n {
            out.push(("candidate-size".into(), format!("candidate {} has side {}", k, c.matrix.size)));
            return (out, None, Some(digest));
        }
        let vals = subject::values(&c.matrix);
        pens[k] = r::penalty(&vals, &enc, n);
        used[k] = c.score;
        // same placed codewords: un-masking candidate k gives one and the same matrix
        let mut u = vals.clone();
        for y in 0..n {
            for x in 0..n {
                if enc[y * n + x] {
                    u[y * n + x] ^= r::maskbit(k, y, x);
                }
            }
        }
        match &unmasked0 {
            None => unmasked0 = Some(u),
            Some(u0) => {
                if *u0 != u {
                    let p = u.iter().zip(u0.iter()).position(|(a, b)| a != b).unwrap();
                    out.push(("candidates-not-same-codewords".into(), format!("candidate {} is not mask {} applied to the same placed codewords as the first candidate (differs at row {}, col {})", k, k, p / n, p % n)));
                    return (out, None, Some(digest));
                }
            }
        }
        // the emitted symbol carries candidate[emitted] on its encoding region
        if k == emitted {
            let qv = subject::values(&q);
            if let Some(p) = (0..n * n).find(|&i| enc[i] && qv[i] != vals[i]) {
                out.push(("emitted-differs-from-candidate".into(), format!("the emitted symbol (mask {}) differs from candidate {} on data module (row {}, col {})", emitted, k, p / n, p % n)));
            }
        }
    }
    let min_hi = pens.iter().map(|p| p.1).min().unwrap();
    if std::env::var("FQV_C11_DEBUG").is_ok() && (0..8).any(|k| used[k] < pens[k].0 || used[k] > pens[k].1) {
        eprintln!("DISCREPANCY v{} emitted {} documented {:?} used {:?}", v, emitted, pens.iter().map(|p| p.1).collect::<Vec<_>>(), used);
    }
    if pens[emitted].0 > min_hi {
        let best = pens.iter().position(|p| p.1 == min_hi).unwrap();
        out.push((
            "not-minimal".into(),
            format!(
                "v{}: emitted mask {} has documented penalty {} but mask {} has {} (all eight: {:?}; scores the crate ranked by: {:?})",
                v,
                emitted,
                pens[emitted].0,
                best,
                min_hi,
                pens.iter().map(|p| p.1).collect::<Vec<_>>(),
                used
            ),
        ));
    }
    (out, Some(Selection { emitted, pens, used }), Some(digest))
}

pub fn case_json(input: &[u8], o: &Opts) -> Value {
    let mut c = subject::case_json(input, o);
    c["kind"] = json!("selection");
    c
}

pub fn run(ctx: &Ctx) -> Collector {
    let col = Collector::new("C11", "exploration");
    col.set_rule("cases = automatic-mask builds over S_small (every input of <= 2 bytes: complete 8-candidate selection instances on the smallest symbols), S_len (quick: threshold/short/every-7th lengths; thorough: every length) and S_cap_families (160 (version, level) x extreme payloads), plus the forced-mask override over S_cell; observation = hook H2: the (mask, score, candidate matrix) triples recorded inside the selection loop; oracle: exactly 8 candidates covering masks 0..7, each equal to Table 10 mask k applied to the same placed codewords, the emitted symbol carries the emitted candidate, and the emitted mask is in argmin_k R.penalty(candidate_k) (documented penalty recomputed by R on the recorded candidate; ties accepted; interval on exact 5 % edges); non-trivial = a symbol was returned; distinct = distinct symbol matrices");
    col.assume("only argmin membership is compared, never raw scores (an order-equivalent rescaling of the score is not a violation)");
    col.assume("hook H2 records the candidate exactly as it was scored (one guarded line after the score call)");
    let thorough = ctx.tier.thorough();
    let mut spaces_v: Vec<Space> = vec![];
    spaces_v.push(spaces::s_small(if thorough { &[None, Some(0), Some(1)] } else { &[None, Some(0)] }, false));
    let fams: Vec<Family> = if thorough { vec![Family::Ctr, Family::Lo, Family::Hi, Family::Pad] } else { vec![Family::Ctr] };
    for f in fams {
        let mut sp = spaces::s_len_tier(f, 7200, thorough);
        // only lengths that return a symbol matter; drop the over-capacity tail
        sp.cases.retain(|c| if let spaces::Input::Fam(_, m, len) = c.input { (len as usize) <= r::cap(40, c.opts.ecl.unwrap() as usize, m as usize) } else { true });
        spaces_v.push(sp);
    }
    spaces_v.push(spaces::s_cap_families(thorough));
    {
        // all strings of three symbols over a 40-symbol alphabet (digits, letters of both cases, punctuation, some
        // bytes): small symbols with little padding, where one module more or less decides the selection
        let al: Vec<u8> = b"0123456789ABCDEFXYZ $%*+-./:abcxyz,;@\x00\x7f\xff".to_vec();
        let mut cases = vec![];
        let levels: &[Option<u8>] = if thorough { &[None, Some(0), Some(1), Some(3)] } else { &[None, Some(0), Some(3)] };
        for &ecl in levels {
            for &a in &al {
                for &b in &al {
                    for &c in &al {
                        cases.push(Case::new(vec![a, b, c], Opts { mode: None, ecl, version: None, mask: None, order: 0 }));
                    }
                }
            }
        }
        spaces_v.push(Space { name: "S_three".into(), describe: format!("every string of three symbols over a {}-symbol alphabet x levels {:?}, everything else automatic", al.len(), levels), cases, exhaustive: true });
    }
    {
        // version-1 symbols filled to capacity with distinct content (no pad codewords): T00000Z .. T99999Z at level
        // H (7 bytes) and TICKET00000 .. TICKET99999 at level Q (11 bytes): 100 000 unrelated candidate sets each
        let mut cases = vec![];
        let n = if thorough { 100_000 } else { 50_000 };
        for i in 0..n {
            cases.push(Case::new(format!("T{:05}Z", i).into_bytes(), Opts { mode: None, ecl: Some(3), version: None, mask: None, order: 0 }));
            cases.push(Case::new(format!("TICKET{:05}", i).into_bytes(), Opts { mode: None, ecl: Some(2), version: None, mask: None, order: 0 }));
            // version 2: 11 and 9 bytes at level H (capacity 14)
            cases.push(Case::new(format!("TICKET{:05}", i).into_bytes(), Opts { mode: None, ecl: Some(3), version: None, mask: None, order: 0 }));
            cases.push(Case::new(format!("Sg{:05}zQ", i).into_bytes(), Opts { mode: None, ecl: Some(3), version: None, mask: None, order: 0 }));
            if i % 2 == 0 {
                // versions 3 and 4 at level H (capacities 24 and 34 bytes)
                cases.push(Case::new(format!("https://ex.am/t/{:05}", i).into_bytes(), Opts { mode: None, ecl: Some(3), version: None, mask: None, order: 0 }));
                cases.push(Case::new(format!("https://example.com/order/{:05}/x", i).into_bytes(), Opts { mode: None, ecl: Some(3), version: None, mask: None, order: 0 }));
            }
        }
        spaces_v.push(Space { name: "S_tickets".into(), describe: format!("T00000Z.. (level H, v1), TICKET00000.. (level Q, v1; level H, v2), Sg00000zQ.. (level H, v2), {} each, and half as many 21- and 33-byte URLs at level H (v3, v4): small symbols filled (nearly) to capacity with distinct content", n), cases, exhaustive: true });
    }
    {
        // designed selection instances: candidate k looks random except for one planted feature of the documented
        // penalty (a 1011101 window next to a long run, runs of particular lengths, a 2x2 block across a 64-column
        // boundary), on versions 10 and 12; many seeds, so that the planted candidate is sometimes the winner by less
        // than the feature is worth. A scorer that misses the feature only in such surroundings changes the selection
        // here and nowhere among natural payloads.
        // The seeds are searched with R: an instance is kept when the planted candidate is the documented winner or
        // within 60 points of it (a close race that the feature decides), or among the first `plain` seeds.
        let scan: u64 = if thorough { 6000 } else { 1200 };
        let plain: u64 = if thorough { 100 } else { 30 };
        let close_race = |v: usize, e: usize, k: usize, p: &[u8]| -> bool {
            let g = r::geo_of(v);
            let n = g.n;
            let enc: Vec<bool> = g.reg.iter().map(|&x| x == Reg::Data).collect();
            let mut pens = [0i64; 8];
            for j in 0..8 {
                let mut vals = r::encode_symbol(p, 2, e, v, j);
                for i in 0..n * n {
                    if g.reg[i] == Reg::Format {
                        vals[i] = false;
                    }
                }
                pens[j] = r::penalty(&vals, &enc, n).1 as i64;
            }
            let other = (0..8).filter(|&j| j != k).map(|j| pens[j]).min().unwrap();
            (pens[k] - other).abs() <= 60
        };
        type Wanted = Box<dyn Fn(usize, usize) -> Option<bool> + Send + Sync>;
        let mut designs: Vec<(usize, usize, u64, Wanted, u64)> = vec![];
        for &(v, e) in &[(10usize, 0usize), (12, 0)] {
            let n = r::side(v);
            let ok = spaces::data_codeword_modules(v, e);
            // a horizontal and a vertical stretch of 46 data-codeword modules
            let mut row_at = None;
            'r: for y in (9..n - 9).rev() {
                for x0 in 9..n - 46 {
                    if (0..46).all(|d| ok[y * n + x0 + d]) {
                        row_at = Some((y, x0));
                        break 'r;
                    }
                }
            }
            let mut col_at = None;
            'c: for x in (9..n).rev() {
                for y0 in 9..n - 46 {
                    if (0..46).all(|d| ok[(y0 + d) * n + x]) {
                        col_at = Some((x, y0));
                        break 'c;
                    }
                }
            }
            let feats: Vec<Vec<bool>> = vec![
                [vec![true, false, true, true, true, false], vec![true; 33]].concat(),
                [vec![true; 33], vec![false, true, false, true, true, true, false, true]].concat(),
                [vec![false, false, false, false, true, false, true, true, true, false, true], vec![false; 33]].concat(),
                [vec![false], vec![true; 5], vec![false], vec![true; 6], vec![false], vec![true; 31], vec![false]].concat(),
                [vec![true], vec![false; 32], vec![true], vec![false; 8], vec![true]].concat(),
            ];
            for (fi, feat) in feats.iter().enumerate() {
                for vertical in [false, true] {
                    let at = if vertical { col_at } else { row_at };
                    let (a, b0) = match at {
                        Some(t) => t,
                        None => continue,
                    };
                    let feat = feat.clone();
                    designs.push((v, e, fi as u64, Box::new(move |y: usize, x: usize| -> Option<bool> {
                        let (line, pos) = if vertical { (x, y) } else { (y, x) };
                        if line == a && pos >= b0 && pos < b0 + feat.len() {
                            Some(feat[pos - b0])
                        } else {
                            None
                        }
                    }), scan));
                }
            }
            // a dark 2x2 block across the boundary between columns 63 and 64 (version 12 only: side 65)
            if n > 64 {
                for y0 in [20usize, 27, 34] {
                    designs.push((v, e, 100 + y0 as u64, Box::new(move |y: usize, x: usize| -> Option<bool> {
                        if (y == y0 || y == y0 + 1) && (x == 63 || x == 64) {
                            Some(true)
                        } else if y + 1 >= y0 && y <= y0 + 2 && (62..=65).contains(&x) {
                            Some(false)
                        } else {
                            None
                        }
                    }), scan));
                }
            }
        }
        // version 40: a line that changes colour at every module for about 160 modules and ends in a run of six, or
        // in the 1011101 window followed by four light modules (a scan that keeps a bounded list of stretches per line
        // runs out of room exactly there)
        {
            let (v, e) = (40usize, 0usize);
            let n = r::side(v);
            let ok = spaces::data_codeword_modules(v, e);
            let alt = |len: usize| -> Vec<bool> { (0..len).map(|i| i % 2 == 0).collect() };
            let long_feats: Vec<Vec<bool>> = vec![
                [alt(161), vec![true; 6], vec![false]].concat(),
                [alt(157), vec![true, false, true, true, true, false, true], vec![false; 4]].concat(),
                [vec![false], vec![true; 6], alt(161)].concat(),
            ];
            let need = 168usize;
            let mut col_at = None;
            'c40: for x in (9..n).rev() {
                for y0 in 9..=n - need {
                    if (0..need).all(|d| ok[(y0 + d) * n + x]) {
                        col_at = Some((x, y0));
                        break 'c40;
                    }
                }
            }
            let mut row_at = None;
            'r40: for y in (9..n).rev() {
                for x0 in 9..=n - need {
                    if (0..need).all(|d| ok[y * n + x0 + d]) {
                        row_at = Some((y, x0));
                        break 'r40;
                    }
                }
            }
            for (fi, feat) in long_feats.iter().enumerate() {
                for vertical in [false, true] {
                    let (a, b0) = match if vertical { col_at } else { row_at } {
                        Some(t) => t,
                        None => continue,
                    };
                    let feat = feat.clone();
                    designs.push((v, e, 200 + fi as u64, Box::new(move |y: usize, x: usize| -> Option<bool> {
                        let (line, pos) = if vertical { (x, y) } else { (y, x) };
                        if line == a && pos >= b0 && pos < b0 + feat.len() {
                            Some(feat[pos - b0])
                        } else {
                            None
                        }
                    }), scan / 4));
                }
            }
        }
        let workers = std::thread::available_parallelism().map(|n| n.get()).unwrap_or(4).min(16) as u64;
        let mut kept: Vec<(usize, u64, Vec<u8>, usize, usize, bool)> = vec![];
        std::thread::scope(|sc| {
            let mut hs = vec![];
            for w in 0..workers {
                let designs = &designs;
                let close_race = &close_race;
                hs.push(sc.spawn(move || {
                    let mut mine = vec![];
                    for (di, (v, e, tag, wanted, scan)) in designs.iter().enumerate() {
                        let mut seed = w;
                        while seed < *scan {
                            let k = (seed % 8) as usize;
                            let p = spaces::payload_for_candidate(*v, *e, k, seed * 31 + tag, wanted.as_ref());
                            if seed < plain.min(*scan / 10) || close_race(*v, *e, k, &p) {
                                // the design must be there: candidate k of R shows every wanted module
                                let n = r::side(*v);
                                let vals = r::encode_symbol(&p, 2, *e, *v, k);
                                let realized = (0..n * n).all(|i| wanted(i / n, i % n).map_or(true, |w| vals[i] == w));
                                if !realized && std::env::var("FQV_C11_DEBUG").is_ok() {
                                    let bad: Vec<(usize, usize)> = (0..n * n).filter(|&i| wanted(i / n, i % n).map_or(false, |w| vals[i] != w)).map(|i| (i / n, i % n)).collect();
                                    eprintln!("UNREALIZED v{} tag {} k {} seed {}: {} modules, first {:?}", v, tag, k, seed, bad.len(), &bad[..bad.len().min(12)]);
                                }
                                mine.push((di, seed, p, *v, *e, realized));
                            }
                            seed += workers;
                        }
                    }
                    mine
                }));
            }
            for h in hs {
                kept.extend(h.join().unwrap());
            }
        });
        kept.sort_by(|a, b| (a.0, a.1).cmp(&(b.0, b.1)));
        let n_designs = designs.len();
        let mut cases = vec![];
        let unrealized = kept.iter().filter(|k| !k.5).count();
        if unrealized > 0 {
            let which: std::collections::BTreeSet<(usize, u64)> = kept.iter().filter(|k| !k.5).map(|k| (k.3, designs[k.0].2)).collect();
            col.machinery_error(format!("S_planted: {} of {} designed payloads do not show their design in R's candidate (version, design tag: {:?})", unrealized, kept.len(), which));
        }
        for (_, _, p, v, e, _) in kept {
            cases.push(Case::new(p, Opts { mode: Some(2), ecl: Some(e as u8), version: Some(v as u8), mask: None, order: 0 }));
        }
        {
            let zp = zero_penalty_payloads();
            if zp.is_empty() {
                col.machinery_error("S_zero: the search with R found no payload with a zero-penalty candidate (the space would be empty)".into());
            }
            let mut zc = vec![];
            for p in &zp {
                let v = if p.len() <= r::cap(1, 0, 2) { 1u8 } else { 2 };
                zc.push(Case::new(p.clone(), Opts { mode: Some(2), ecl: Some(0), version: Some(v), mask: None, order: 0 }));
                zc.push(Case::new(p.clone(), Opts { mode: None, ecl: Some(0), version: None, mask: None, order: 0 }));
            }
            spaces_v.push(Space { name: "S_zero".into(), describe: format!("{} version-1 / version-2 payloads (byte mode, level L, full capacity) one of whose candidates has a documented penalty of exactly 0, found by a deterministic hill climb with R from diagonal stripes (8 masks x 6 stripe variants on version 1, 8 masks on version 2), built with mode and version forced and fully automatic", zp.len()), cases: zc, exhaustive: true });
        }
        spaces_v.push(Space { name: "S_planted".into(), describe: format!("designed selection instances on versions 10 and 12 (level L): a pseudo-random candidate k with one planted feature (1011101 next to a run of 33, a run followed by the window, runs of lengths 5/6/31/32, a 2x2 block across columns 63/64) and on version 40 (about 160 colour changes in one line followed by a run of six or by the window), horizontally and vertically; {} designs x {} seeds searched with R, kept: the first {} seeds of each design and every seed where the planted candidate wins or loses the documented selection by at most 60 points", n_designs, scan, plain), cases, exhaustive: true });
    }
    {
        let mut sp = spaces::s_antimask(thorough);
        sp.cases.retain(|c| c.opts.mask.is_none());
        spaces_v.push(sp);
    }
    if thorough {
        spaces_v.push(spaces::s_small(&[Some(3)], true));
    }
    let ties = AtomicU64::new(0);
    let edge = AtomicU64::new(0);
    for (si, sp) in spaces_v.iter().enumerate() {
        let t0 = std::time::Instant::now();
        let viol0 = col.violation_count.load(Ordering::Relaxed);
        let okc = AtomicU64::new(0);
        pool::par_for(sp.cases.len(), |i| {
            let case = &sp.cases[i];
            let input = case.bytes();
            let (findings, sel, digest) = check_selection(&input, &case.opts);
            col.eval(digest);
            if digest.is_none() {
                col.skipped_panic();
            }
            if let Some(sel) = sel {
                okc.fetch_add(1, Ordering::Relaxed);
                let min_hi = sel.pens.iter().map(|p| p.1).min().unwrap();
                if sel.pens.iter().filter(|p| p.1 == min_hi).count() > 1 {
                    ties.fetch_add(1, Ordering::Relaxed);
                }
                if sel.pens.iter().any(|p| p.0 != p.1) {
                    edge.fetch_add(1, Ordering::Relaxed);
                }
            }
            for (k, w) in findings {
                col.violation((si as u64, i as u64), format!("C11/{}", k), w, case_json(&input, &case.opts));
            }
        });
        let n = sp.cases.len();
        for &i in [0, n / 2, n.saturating_sub(1)].iter().filter(|&&i| i < n) {
            let b = sp.cases[i].bytes();
            col.sample(json!({"space": sp.name, "index": i, "input": crate::util::show(&b), "input_len": b.len(), "opts": sp.cases[i].opts.to_json()}));
        }
        col.space(json!({"name": sp.name, "what": sp.describe, "cases": n, "selection_instances": okc.load(Ordering::Relaxed), "exhaustive": true,
            "violations": col.violation_count.load(Ordering::Relaxed) - viol0, "wall_s": (t0.elapsed().as_secs_f64() * 100.0).round() / 100.0}));
    }
    // ---- selection after a history on the same thread / the same builder: the emitted mask of an automatic build
    // must still be a minimiser (a remembered mask, from a forced build or from an earlier build of the builder,
    // must not replace the selection)
    {
        let t0 = std::time::Instant::now();
        let viol0 = col.violation_count.load(Ordering::Relaxed);
        let base = spaces::s_small(&[None], false);
        let stride = if thorough { 8 } else { 48 };
        let mut inst: Vec<(Vec<u8>, u8, Prelude)> = vec![];
        for (i, c) in base.cases.iter().enumerate() {
            if i % stride == 0 {
                for pre in [Prelude::ForcedBefore, Prelude::SameBuilderOtherLevel, Prelude::SameBuilderOtherMode] {
                    inst.push((c.bytes(), (i % 4) as u8, pre));
                }
            }
        }
        for len in [10usize, 40, 100, 300] {
            for m in 0..3usize {
                for pre in [Prelude::ForcedBefore, Prelude::SameBuilderOtherLevel, Prelude::SameBuilderOtherMode] {
                    inst.push((content(Family::Ctr, m, len), (len % 4) as u8, pre));
                }
            }
        }
        // forced after automatic, all 8 masks, a few payloads
        let fa: Vec<(Vec<u8>, u8, u8)> = [&b"HELLO WORLD"[..], &b"0123456789012"[..], &b"hello, world! 12"[..], &b""[..]].iter().flat_map(|p| (0..8u8).flat_map(move |k| (0..2u8).map(move |e| (p.to_vec(), e * 3, k)))).collect();
        pool::par_for(fa.len(), |i| {
            let (input, e, k) = &fa[i];
            col.eval(Some(crate::util::fnv(format!("fa{:?}", (input, e, k)).as_bytes())));
            for (key, w) in check_forced_after_auto(input, *e, *k) {
                col.violation((81, i as u64), format!("C11/{}-after-automatic-build", key), format!("build(), mask({}), build() on one builder: {}", k, w), json!({"kind": "forced-after-auto", "input_hex": crate::util::hex(input), "ecl": e, "mask": k}));
            }
        });
        pool::par_for(inst.len(), |i| {
            let (input, e, pre) = &inst[i];
            let (findings, _, digest) = check_selection_after(input, *e, *pre);
            col.eval(digest);
            for (k, w) in findings {
                let mut cj = case_json(input, &Opts { mode: if *pre == Prelude::SameBuilderOtherMode { Some(2) } else { None }, ecl: Some(*e), version: None, mask: None, order: 0 });
                cj["kind"] = json!("selection-after");
                cj["prelude"] = json!(format!("{:?}", pre));
                col.violation((80, i as u64), format!("C11/{}-after-history", k), format!("after {:?}: {}", pre, w), cj);
            }
        });
        col.space(json!({"name": "selection after a history", "what": format!("every {}th input of S_small and 12 longer payloads x 3 preludes on the same thread (forced-mask builds of the same payload first; the same builder built at another level first; the same builder built in another mode first): the automatic build that follows must still emit a minimiser", stride), "cases": inst.len(), "exhaustive": true,
            "violations": col.violation_count.load(Ordering::Relaxed) - viol0, "wall_s": (t0.elapsed().as_secs_f64() * 100.0).round() / 100.0}));
    }
    let bb = BLACKBOX.load(Ordering::Relaxed);
    col.set("selection_instances_decided_black_box_because_hook_H2_was_not_reached", json!(bb));
    if bb > 0 {
        col.assume("WEAKENED: hook H2 was not reached; candidates were reconstructed from the eight forced-mask builds with format modules blanked");
    }
    col.set("selection_instances_with_tied_minimum", json!(ties.load(Ordering::Relaxed)));
    col.set("selection_instances_with_a_candidate_on_a_5_percent_edge", json!(edge.load(Ordering::Relaxed)));

    // forced mask always overrides the selection
    let mut sp = spaces::s_cell(false);
    let t0 = std::time::Instant::now();
    let viol0 = col.violation_count.load(Ordering::Relaxed);
    let stride = if thorough { 1 } else { 2 };
    let mut idx: Vec<usize> = (0..sp.cases.len()).filter(|i| i % stride == 0).collect();
    // and where forcing is as bad as it gets for the penalty: uniform payloads that fill the symbol
    let n0 = sp.cases.len();
    sp.cases.extend(crate::props::basic::s_forced_mask_extreme().cases);
    idx.extend(n0..sp.cases.len());
    pool::par_for(idx.len(), |j| {
        let case = &sp.cases[idx[j]];
        let input = case.bytes();
        match subject::build(&input, &case.opts) {
            Outcome::Ok(q) => {
                col.eval(Some(crate::core::obs_digest(&q)));
                let fk = case.opts.mask.unwrap() as usize;
                let n = q.size;
                let vals = subject::values(&q);
                let (c1, _) = r::fmt_coords(n);
                let named = r::nearest_format(r::read_word(&vals, n, &c1)).map(|x| x.1);
                if q.mask.map(|m| m as usize) != Some(fk) || named != Some(fk) {
                    col.violation((90, j as u64), "C11/forced-mask-not-used".into(), format!("forced mask {} but the symbol reports {:?} and its format information names {:?}", fk, q.mask, named), subject::case_json(&input, &case.opts));
                }
            }
            _ => {
                col.eval(None);
                col.skipped_panic();
            }
        }
    });
    col.space(json!({"name": "forced-mask override", "cases": idx.len(), "what": format!("every {} cell of S_cell: reported mask and mask named in the format information equal the forced mask", if stride == 1 { "".to_string() } else { "second".to_string() }), "exhaustive": true,
        "violations": col.violation_count.load(Ordering::Relaxed) - viol0, "wall_s": (t0.elapsed().as_secs_f64() * 100.0).round() / 100.0}));
    col
}
