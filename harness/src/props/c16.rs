//! C16: terminal rendering encodes the matrix faithfully with a one-module border

use crate::pool;
use crate::report::{Collector, Ctx};
use crate::spaces;
use crate::subject::{self, Outcome};
use fast_qr::QRCode;
use serde_json::json;
use std::sync::atomic::{AtomicU64, Ordering};

/// Parses the text back; `vals[r*n+c]` are the module values it must encode. Ok(()) or a description.
pub fn check_text(text: &str, vals: &dyn Fn(usize, usize) -> bool, n: usize) -> Result<(), String> {
    let lines: Vec<&str> = text.split('\n').collect();
    let want_lines = (n + 1) / 2 + 1;
    if lines.len() != want_lines {
        return Err(format!("{} lines, expected {}", lines.len(), want_lines));
    }
    // half-rows: (top, bottom) per character; true = dark
    let mut half: Vec<Vec<bool>> = Vec::with_capacity(2 * want_lines);
    for (li, l) in lines.iter().enumerate() {
        let mut top = Vec::with_capacity(n + 2);
        let mut bot = Vec::with_capacity(n + 2);
        let mut cnt = 0;
        for ch in l.chars() {
            let (t, b) = match ch {
                ' ' => (true, true),
                '▄' => (true, false),
                '▀' => (false, true),
                '█' => (false, false),
                other => return Err(format!("line {}: character {:?} is not one of space, upper half, lower half, full block", li, other)),
            };
            top.push(t);
            bot.push(b);
            cnt += 1;
        }
        if cnt != n + 2 {
            return Err(format!("line {} has {} characters, expected {}", li, cnt, n + 2));
        }
        half.push(top);
        half.push(bot);
    }
    // half-row 0 is above the picture (nothing drawn), half-row 1 is the top border,
    // half-rows 2..n+2 are matrix rows, half-row n+2 is the bottom border
    if half.len() != n + 3 {
        return Err(format!("{} half rows, expected {}", half.len(), n + 3));
    }
    if half[0].iter().any(|&d| !d) {
        return Err("the top border is more than one module high (upper half of the first line is light)".to_string());
    }
    for c in 0..n + 2 {
        if half[1][c] {
            return Err(format!("top border is dark at column {}", c));
        }
        if half[n + 2][c] {
            return Err(format!("bottom border is dark at column {}", c));
        }
    }
    for r in 0..n {
        let row = &half[r + 2];
        if row[0] {
            return Err(format!("left border is dark at matrix row {}", r));
        }
        if row[n + 1] {
            return Err(format!("right border is dark at matrix row {}", r));
        }
        for c in 0..n {
            if row[c + 1] != vals(r, c) {
                return Err(format!("module (row {}, col {}) is {} in the matrix but rendered {}", r, c, if vals(r, c) { "dark" } else { "light" }, if row[c + 1] { "dark" } else { "light" }));
            }
        }
    }
    Ok(())
}

fn render(q: &QRCode) -> Result<String, String> {
    subject::guarded(|| q.to_str())
}

pub fn run(ctx: &Ctx) -> Collector {
    let col = Collector::new("C16", "exploration");
    col.set_rule("cases = (i) to_str() of every S_cell symbol (all 40 sizes x levels x masks x modes), every eighth right after a rendering that fails on the same thread; (ii) synthetic matrices through the public QRCode::default(size) + data[i].set(): for every size all-light, all-dark, both checkerboards, row and column stripes, and the complete single-module basis (one dark module in an all-light matrix and one light module in an all-dark matrix at EVERY coordinate; quick: sizes v1-v6 and v40, thorough: all 40 sizes); oracle: the text parses back into (size+1)/2+1 lines of size+2 characters from the four-character alphabet whose (top, bottom) halves reproduce every module in place inside a one-module light border; non-trivial = matrix has at least one dark module; distinct = distinct rendered strings");
    let thorough = ctx.tier.thorough();
    // (i) built symbols
    let sp = spaces::s_cell(thorough);
    let t0 = std::time::Instant::now();
    pool::par_for(sp.cases.len(), |i| {
        let case = &sp.cases[i];
        let input = case.bytes();
        match subject::build(&input, &case.opts) {
            Outcome::Ok(q) => {
                let n = q.size;
                // every eighth case comes right after a rendering that fails on the same thread (a matrix whose side
                // exceeds its storage: the renderer panics part of the way through; caught): whatever that left
                // behind must not show in this text
                if i % 8 == 3 {
                    let _ = render(&fast_qr::QRCode::default(200));
                }
                match render(&q) {
                    Ok(text) => {
                        col.eval(Some(crate::util::fnv(text.as_bytes())));
                        let vals = subject::values(&q);
                        if let Err(e) = check_text(&text, &|r, c| vals[r * n + c], n) {
                            col.violation((0, i as u64), "C16/built-symbol".into(), format!("size {}: {}", n, e), subject::case_json(&input, &case.opts));
                        }
                    }
                    Err(msg) => {
                        col.eval(None);
                        col.violation((0, i as u64), "C16/panic".into(), format!("to_str panicked: {}", msg), subject::case_json(&input, &case.opts));
                    }
                }
            }
            _ => {
                col.eval(None);
                col.skipped_panic();
            }
        }
    });
    col.space(json!({"name": "S_cell.to_str", "cases": sp.cases.len(), "what": sp.describe, "exhaustive": true, "wall_s": (t0.elapsed().as_secs_f64() * 100.0).round() / 100.0}));
    col.sample(json!({"space": "S_cell.to_str", "case": "v1 level L mask 0 numeric, empty input", "lines": 12, "chars_per_line": 23}));

    // (ii) synthetic matrices
    let versions: Vec<usize> = if thorough { (1..=40).collect() } else { vec![1, 2, 3, 4, 5, 6, 40] };
    // patterns
    let t1 = std::time::Instant::now();
    let npat = AtomicU64::new(0);
    let all_v: Vec<usize> = (1..=40).collect();
    pool::par_for(all_v.len(), |vi| {
        let n = 17 + 4 * all_v[vi];
        let pats: [(&str, Box<dyn Fn(usize, usize) -> bool + Sync>); 8] = [
            ("all-light", Box::new(|_, _| false)),
            ("all-dark", Box::new(|_, _| true)),
            ("checkerboard-0", Box::new(|r, c| (r + c) % 2 == 0)),
            ("checkerboard-1", Box::new(|r, c| (r + c) % 2 == 1)),
            ("row-stripes-0", Box::new(|r, _| r % 2 == 0)),
            ("row-stripes-1", Box::new(|r, _| r % 2 == 1)),
            ("col-stripes-0", Box::new(|_, c| c % 2 == 0)),
            ("col-stripes-1", Box::new(|_, c| c % 2 == 1)),
        ];
        for (name, p) in pats.iter() {
            let mut q = Box::new(QRCode::default(n));
            for r in 0..n {
                for c in 0..n {
                    q.data[r * n + c].set(p(r, c));
                }
            }
            npat.fetch_add(1, Ordering::Relaxed);
            match render(&q) {
                Ok(text) => {
                    col.eval(if *name == "all-light" { None } else { Some(crate::util::fnv(text.as_bytes())) });
                    if let Err(e) = check_text(&text, &|r, c| p(r, c), n) {
                        col.violation((1, (vi * 8) as u64), format!("C16/pattern-{}", name), format!("size {} pattern {}: {}", n, name, e), json!({"kind": "term-pattern", "size": n, "pattern": name}));
                    }
                }
                Err(msg) => col.violation((1, (vi * 8) as u64), "C16/panic".into(), format!("to_str panicked on size {} pattern {}: {}", n, name, msg), json!({"kind": "term-pattern", "size": n, "pattern": name})),
            }
        }
    });
    col.space(json!({"name": "synthetic patterns", "cases": npat.load(Ordering::Relaxed), "what": "all 40 sizes x {all-light, all-dark, 2 checkerboards, 2 row stripes, 2 column stripes}", "exhaustive": true, "wall_s": (t1.elapsed().as_secs_f64() * 100.0).round() / 100.0}));

    // single-module basis: tasks = (version, row, polarity)
    let t2 = std::time::Instant::now();
    let mut tasks = vec![];
    for &v in &versions {
        let n = 17 + 4 * v;
        for r in 0..n {
            for pol in [false, true] {
                tasks.push((n, r, pol));
            }
        }
    }
    let nbasis = AtomicU64::new(0);
    pool::par_for(tasks.len(), |ti| {
        let (n, r0, pol) = tasks[ti];
        // pol = false: one dark module in an all-light matrix; true: one light module in an all-dark matrix
        let mut q = Box::new(QRCode::default(n));
        for i in 0..n * n {
            q.data[i].set(pol);
        }
        let mut bad: Option<(usize, String)> = None;
        for c0 in 0..n {
            q.data[r0 * n + c0].set(!pol);
            nbasis.fetch_add(1, Ordering::Relaxed);
            match render(&q) {
                Ok(text) => {
                    if c0 == 0 || c0 == n - 1 {
                        col.digest(crate::util::fnv(text.as_bytes()));
                    }
                    if let Err(e) = check_text(&text, &|r, c| if r == r0 && c == c0 { !pol } else { pol }, n) {
                        if bad.is_none() {
                            bad = Some((c0, e));
                        }
                    }
                }
                Err(msg) => {
                    if bad.is_none() {
                        bad = Some((c0, format!("to_str panicked: {}", msg)));
                    }
                }
            }
            q.data[r0 * n + c0].set(pol);
        }
        if let Some((c0, e)) = bad {
            col.violation((2, ti as u64), "C16/single-module".into(), format!("size {}: single {} module at (row {}, col {}): {}", n, if pol { "light" } else { "dark" }, r0, c0, e), json!({"kind": "term-single", "size": n, "row": r0, "col": c0, "light_on_dark": pol}));
        }
    });
    col.evals_add(nbasis.load(Ordering::Relaxed));
    col.set("single_module_matrices", json!(nbasis.load(Ordering::Relaxed)));
    col.space(json!({"name": "single-module basis", "cases": nbasis.load(Ordering::Relaxed), "what": format!("one dark module on light and one light module on dark at every coordinate, versions {:?}", versions), "exhaustive": true, "wall_s": (t2.elapsed().as_secs_f64() * 100.0).round() / 100.0}));
    // two-module toggles, each rendered right after a render of the all-light matrix of the same size on the same
    // thread: a renderer that remembers its last output under a weak fingerprint of the matrix (parities, sums,
    // folded words) returns the remembered text for a matrix whose changes cancel in the fingerprint
    let t3 = std::time::Instant::now();
    let pair_versions: Vec<usize> = if thorough { vec![1, 2, 3, 7, 14] } else { vec![1, 2, 7] };
    let mut ptasks = vec![];
    for &v in &pair_versions {
        let n = 17 + 4 * v;
        for d in [1usize, 2, 7, 8, 9, 16, 32, 64, n - 1, n, n + 1, 2 * n, 8 * n] {
            ptasks.push((n, d));
        }
    }
    let npairs = AtomicU64::new(0);
    pool::par_for(ptasks.len(), |ti| {
        let (n, d) = ptasks[ti];
        let mut q = Box::new(QRCode::default(n));
        let mut bad: Option<(usize, String)> = None;
        for i in 0..n * n - d {
            let _ = render(&q); // all-light, remembered by a memoising renderer
            q.data[i].set(true);
            q.data[i + d].set(true);
            npairs.fetch_add(1, Ordering::Relaxed);
            match render(&q) {
                Ok(text) => {
                    if let Err(e) = check_text(&text, &|r, c| r * n + c == i || r * n + c == i + d, n) {
                        if bad.is_none() {
                            bad = Some((i, e));
                        }
                    }
                }
                Err(msg) => {
                    if bad.is_none() {
                        bad = Some((i, format!("to_str panicked: {}", msg)));
                    }
                }
            }
            q.data[i].set(false);
            q.data[i + d].set(false);
        }
        if let Some((i, e)) = bad {
            col.violation((3, ti as u64), "C16/two-modules-after-all-light".into(), format!("size {}: dark modules at flat indices {} and {} rendered right after the all-light matrix: {}", n, i, i + d, e), json!({"kind": "term-pair", "size": n, "index": i, "distance": d}));
        }
    });
    col.evals_add(npairs.load(Ordering::Relaxed));
    col.space(json!({"name": "two-module toggles after all-light", "cases": npairs.load(Ordering::Relaxed), "what": format!("versions {:?}: two dark modules at flat distance d in {{1,2,7,8,9,16,32,64,n-1,n,n+1,2n,8n}} at every position, each rendered right after the all-light matrix on the same thread", pair_versions), "exhaustive": true, "wall_s": (t3.elapsed().as_secs_f64() * 100.0).round() / 100.0}));
    col.sample(json!({"space": "single-module basis", "size": 21, "row": 0, "col": 0, "polarity": "dark on light"}));
    col.sample(json!({"space": "single-module basis", "size": 177, "row": 176, "col": 176, "polarity": "light on dark"}));
    col
}
