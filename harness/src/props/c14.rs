//! C14: building and rendering are pure functions of (input, final options), on any thread, in any
//! order. (a) E2 over builder histories, (b) E2 over renderer histories, (c) E3 over schedules.

use crate::explore::sched::{self, Sched};
use crate::pool;
use crate::props::c12::Op as SvgOp;
use crate::props::svgcheck::{SvgModel, SHAPES};
use crate::report::{Collector, Ctx};
use crate::subject::{self, Opts, Outcome, ECLS, MASKS, MODES, VERSIONS};
use fast_qr::convert::image::ImageBuilder;
use fast_qr::convert::svg::SvgBuilder;
use fast_qr::convert::Builder;
use fast_qr::{QRBuilder, QRCode};
use serde_json::{json, Value};
use std::collections::{BTreeMap, HashMap, HashSet};
use std::io::Write;
use std::sync::atomic::{AtomicU64, Ordering};
use std::sync::{Arc, Mutex};

// ---------------------------------------------------------------- pristine child processes

/// what to observe after the build
#[derive(Clone, Debug, PartialEq, Eq, Hash, PartialOrd, Ord)]
pub enum Render {
    None,
    Svg(String), // JSON of the SvgBuilder program (c12 ops)
    Term,
    Png,
}

#[derive(Clone, Debug, PartialEq, Eq, Hash, PartialOrd, Ord)]
pub struct PCase {
    pub input: Vec<u8>,
    pub opts: Opts,
    pub render: Render,
}

impl PCase {
    pub fn to_json(&self) -> Value {
        let (r, p) = match &self.render {
            Render::None => ("none", Value::Null),
            Render::Svg(p) => ("svg", serde_json::from_str(p).unwrap_or(Value::Null)),
            Render::Term => ("term", Value::Null),
            Render::Png => ("png", Value::Null),
        };
        json!({"input_hex": crate::util::hex(&self.input), "opts": self.opts.to_json(), "render": r, "program": p})
    }
    pub fn from_json(v: &Value) -> Option<PCase> {
        let input = crate::util::unhex(v.get("input_hex")?.as_str()?)?;
        let opts = Opts::from_json(v.get("opts")?)?;
        let render = match v.get("render")?.as_str()? {
            "none" => Render::None,
            "svg" => Render::Svg(v.get("program")?.to_string()),
            "term" => Render::Term,
            "png" => Render::Png,
            _ => return None,
        };
        Some(PCase { input, opts, render })
    }
}

fn svg_program(json_text: &str) -> Vec<SvgOp> {
    serde_json::from_str::<Value>(json_text).ok().and_then(|v| v.as_array().map(|a| a.iter().filter_map(SvgOp::from_json).collect())).unwrap_or_default()
}

/// the observation digest of one case, computed here and now with fresh objects
pub fn observe(c: &PCase) -> u64 {
    let out = subject::build(&c.input, &c.opts);
    let base = subject::outcome_digest(&out);
    match (&out, &c.render) {
        (_, Render::None) => base,
        (Outcome::Ok(q), r) => {
            let rendered: Result<Vec<u8>, String> = subject::guarded(|| match r {
                Render::Svg(p) => {
                    let mut b = SvgBuilder::default();
                    for op in svg_program(p) {
                        op.apply_real(&mut b);
                    }
                    b.to_str(q).into_bytes()
                }
                Render::Term => q.to_str().into_bytes(),
                Render::Png => ImageBuilder::default().to_bytes(q).unwrap_or_default(),
                Render::None => vec![],
            });
            match rendered {
                Ok(b) => crate::util::Fnv::new().add_u64(base).add(&b).get(),
                Err(_) => 4,
            }
        }
        _ => base,
    }
}

// ---------------------------------------------------------------- (e) first-use orders

pub const ORDER_VERSIONS: [usize; 8] = [1, 2, 3, 5, 7, 10, 20, 40];

/// the version sequence of order `o`: ascending, descending, the rotations that put 2, 3, 5, 7 first, and a zig-zag
pub fn order_sequence(o: usize) -> Vec<usize> {
    let v = ORDER_VERSIONS.to_vec();
    match o {
        0 => v,
        1 => v.into_iter().rev().collect(),
        2..=5 => {
            let mut w = v;
            w.rotate_left(o - 1);
            w
        }
        _ => vec![40, 1, 20, 2, 10, 3, 7, 5],
    }
}
pub const N_ORDERS: usize = 7;

/// child side: builds and renders the same set of symbols in the order `o`; one "K <key> <digest>" line per observation
pub fn order_main(args: &[String]) -> i32 {
    use fast_qr::convert::image::ImageBuilder;
    use fast_qr::convert::Shape;
    let o: usize = match args.first().and_then(|a| a.parse().ok()) {
        Some(o) => o,
        None => return 2,
    };
    for v in order_sequence(o) {
        let input = crate::spaces::content(crate::spaces::Family::Ctr, 2, crate::refmodel::cap(v, 1, 2) / 2);
        for k in 0..8u8 {
            let d = subject::outcome_digest(&subject::build(&input, &Opts { mode: Some(2), ecl: Some(1), version: Some(v as u8), mask: Some(k), order: 0 }));
            println!("K b{}m{} {}", v, k, d);
        }
        let auto = subject::build(&input, &Opts { mode: None, ecl: Some(1), version: None, mask: None, order: 0 });
        println!("K b{}auto {}", v, subject::outcome_digest(&auto));
        if let Outcome::Ok(q) = &auto {
            let t = subject::guarded(|| q.to_str()).map(|s| crate::util::fnv(s.as_bytes())).unwrap_or(3);
            println!("K t{} {}", v, t);
            let sv = subject::guarded(|| SvgBuilder::default().to_str(q)).map(|s| crate::util::fnv(s.as_bytes())).unwrap_or(3);
            println!("K s{} {}", v, sv);
            let si = subject::guarded(|| {
                let mut b = SvgBuilder::default();
                b.shape(Shape::RoundedSquare).shape_color(Shape::Circle, [255, 0, 0, 255]).margin(2).image("logo.png".to_string());
                b.to_str(q)
            })
            .map(|s| crate::util::fnv(s.as_bytes()))
            .unwrap_or(3);
            println!("K si{} {}", v, si);
            if v <= 10 {
                let p = subject::guarded(|| ImageBuilder::default().to_bytes(q).unwrap_or_default()).map(|b| crate::util::fnv(&b)).unwrap_or(3);
                println!("K p{} {}", v, p);
                let pf = subject::guarded(|| {
                    let mut b = ImageBuilder::default();
                    b.fit_width(300).shape(Shape::Circle);
                    b.to_bytes(q).unwrap_or_default()
                })
                .map(|b| crate::util::fnv(&b))
                .unwrap_or(3);
                println!("K pf{} {}", v, pf);
            }
        }
    }
    println!("DONE");
    0
}

/// environment variables a terminal- or locale-aware program might look at; order N_ORDERS runs order 0 under them
pub const OTHER_ENV: [(&str, &str); 9] = [("COLUMNS", "40"), ("LINES", "10"), ("TERM", "dumb"), ("NO_COLOR", "1"), ("LANG", "tr_TR.UTF-8"), ("LC_ALL", "tr_TR.UTF-8"), ("TZ", "Pacific/Kiritimati"), ("HOME", "/nonexistent"), ("RUST_LOG", "trace")];

pub fn order_child(o: usize) -> Result<BTreeMap<String, u64>, String> {
    let exe = std::env::current_exe().map_err(|e| e.to_string())?;
    let mut cmd = std::process::Command::new(exe);
    cmd.arg("c14-order").arg((o % N_ORDERS).to_string());
    if o >= N_ORDERS {
        for (k, v) in OTHER_ENV {
            cmd.env(k, v);
        }
    } else {
        for (k, _) in OTHER_ENV {
            if k != "HOME" && k != "LANG" {
                cmd.env_remove(k);
            }
        }
    }
    let out = cmd.stderr(std::process::Stdio::null()).output().map_err(|e| e.to_string())?;
    let txt = String::from_utf8_lossy(&out.stdout).to_string();
    if !out.status.success() || !txt.lines().any(|l| l == "DONE") {
        return Err(format!("order child {} did not finish: {:?}", o, out.status));
    }
    let mut m = BTreeMap::new();
    for l in txt.lines().filter(|l| l.starts_with("K ")) {
        let mut it = l[2..].split(' ');
        if let (Some(k), Some(d)) = (it.next(), it.next().and_then(|d| d.parse::<u64>().ok())) {
            m.insert(k.to_string(), d);
        }
    }
    Ok(m)
}

/// child side: one case per stdin line, one digest per stdout line, in the order given
pub fn pristine_main() -> i32 {
    let stdin = std::io::stdin();
    let mut line = String::new();
    let mut out = std::io::stdout();
    loop {
        line.clear();
        match stdin.read_line(&mut line) {
            Ok(0) => break,
            Ok(_) => {}
            Err(_) => return 2,
        }
        let v: Value = match serde_json::from_str(line.trim()) {
            Ok(v) => v,
            Err(_) => return 2,
        };
        let c = match PCase::from_json(&v) {
            Some(c) => c,
            None => return 2,
        };
        let _ = writeln!(out, "{}", observe(&c));
    }
    0
}

/// parent side: runs `cases` in ONE fresh child process, in the order given
pub fn pristine_child(cases: &[PCase]) -> Result<Vec<u64>, String> {
    let exe = std::env::current_exe().map_err(|e| e.to_string())?;
    let mut child = std::process::Command::new(exe)
        .arg("pristine")
        .stdin(std::process::Stdio::piped())
        .stdout(std::process::Stdio::piped())
        .stderr(std::process::Stdio::null())
        .spawn()
        .map_err(|e| format!("cannot spawn pristine child: {}", e))?;
    {
        let mut si = child.stdin.take().ok_or("no stdin")?;
        let mut buf = String::new();
        for c in cases {
            buf.push_str(&c.to_json().to_string());
            buf.push('\n');
        }
        si.write_all(buf.as_bytes()).map_err(|e| e.to_string())?;
    }
    let out = child.wait_with_output().map_err(|e| e.to_string())?;
    if !out.status.success() {
        return Err(format!("pristine child exited with {:?}", out.status));
    }
    let txt = String::from_utf8_lossy(&out.stdout);
    let v: Vec<u64> = txt.lines().filter_map(|l| l.trim().parse().ok()).collect();
    if v.len() != cases.len() {
        return Err(format!("pristine child returned {} digests for {} cases", v.len(), cases.len()));
    }
    Ok(v)
}

/// one fresh process per case (history-free expected values)
pub fn pristine_each(cases: &[PCase]) -> Result<HashMap<PCase, u64>, String> {
    let res: Mutex<HashMap<PCase, u64>> = Mutex::new(HashMap::new());
    let err: Mutex<Option<String>> = Mutex::new(None);
    pool::par_for(cases.len(), |i| match pristine_child(&cases[i..i + 1]) {
        Ok(d) => {
            res.lock().unwrap().insert(cases[i].clone(), d[0]);
        }
        Err(e) => *err.lock().unwrap() = Some(e),
    });
    if let Some(e) = err.into_inner().unwrap() {
        return Err(e);
    }
    Ok(res.into_inner().unwrap())
}

// ---------------------------------------------------------------- (a) builder histories

#[derive(Clone, Copy, Debug, PartialEq)]
pub enum BOp {
    Mode(u8),
    Ecl(u8),
    Version(u8),
    Mask(u8),
    Build,
    Other(u8),
}

impl BOp {
    fn to_json(&self) -> Value {
        match self {
            BOp::Mode(m) => json!({"op": "mode", "v": m}),
            BOp::Ecl(m) => json!({"op": "ecl", "v": m}),
            BOp::Version(m) => json!({"op": "version", "v": m}),
            BOp::Mask(m) => json!({"op": "mask", "v": m}),
            BOp::Build => json!({"op": "build"}),
            BOp::Other(m) => json!({"op": "other_build", "v": m}),
        }
    }
    fn from_json(v: &Value) -> Option<BOp> {
        let x = || v.get("v").and_then(|x| x.as_u64()).map(|x| x as u8);
        Some(match v.get("op")?.as_str()? {
            "mode" => BOp::Mode(x()?),
            "ecl" => BOp::Ecl(x()?),
            "version" => BOp::Version(x()?),
            "mask" => BOp::Mask(x()?),
            "build" => BOp::Build,
            "other_build" => BOp::Other(x()?),
            _ => return None,
        })
    }
}

// the fourth input is lower case and alphanumeric once upper-cased: mode(Alphanumeric) is part of its histories
// although the input does not allow it (an overridden setter value must leave no trace, whatever it was)
pub const HISTORY_INPUTS: [&[u8]; 4] = [b"0123456789", b"HELLO WORLD 123", b"hello, world!", b"https://ex.am/q"];

/// modes in the history alphabet of an input: those it allows, and those its ASCII upper-case form allows
pub fn history_modes(input: &[u8]) -> Vec<u8> {
    let up = input.to_ascii_uppercase();
    (0..3u8).filter(|&m| crate::refmodel::mode_accepts(m as usize, input) || crate::refmodel::mode_accepts(m as usize, &up)).collect()
}

pub const N_OTHER: u8 = 4;

// 2 and 3: two fully automatic builds of inputs of the same length and of different character classes, each on a builder
// that is dropped afterwards (whatever a build remembers about "the input it saw last" meets a different input of the
// same size, possibly at the same address)
fn other_case(i: u8) -> PCase {
    match i {
        0 => PCase { input: b"an unrelated payload, level H, version 5".to_vec(), opts: Opts { mode: None, ecl: Some(3), version: Some(5), mask: None, order: 0 }, render: Render::None },
        1 => PCase { input: b"31415926535897932384626433832795028841971".to_vec(), opts: Opts { mode: None, ecl: Some(0), version: None, mask: Some(3), order: 0 }, render: Render::None },
        2 => PCase { input: b"1234567890123456".to_vec(), opts: Opts::default(), render: Render::None },
        _ => PCase { input: b"hello world, abc".to_vec(), opts: Opts::default(), render: Render::None },
    }
}

/// Inputs whose documented selection is a tie between two or more masks (found with R among `https://example.com/item/N`)
/// and predecessors whose documented winners are as many different masks as possible. A selection that keeps something
/// from the previous build (where it starts, what it compares with first) shows on the ties only.
pub fn tie_inputs(thorough: bool) -> (Vec<Vec<u8>>, Vec<Vec<u8>>) {
    let mut ties = vec![];
    let mut preds: Vec<Option<Vec<u8>>> = vec![None; 8];
    let limit = if thorough { 3000 } else { 600 };
    let want_ties = if thorough { 24 } else { 8 };
    for i in 0..limit {
        let input = format!("https://example.com/item/{}", i).into_bytes();
        let v = match crate::refmodel::min_version(2, 2, input.len()) {
            Some(v) => v,
            None => continue,
        };
        let pens = crate::props::c11::documented_penalties(&input, 2, 2, v);
        let min = *pens.iter().min().unwrap();
        let winners: Vec<usize> = (0..8).filter(|&k| pens[k] == min).collect();
        if winners.len() >= 2 {
            if ties.len() < want_ties {
                ties.push(input);
            }
        } else if preds[winners[0]].is_none() {
            preds[winners[0]] = Some(input);
        }
        if ties.len() >= want_ties && preds.iter().all(|p| p.is_some()) {
            break;
        }
    }
    (ties, preds.into_iter().flatten().collect())
}

fn builder_alphabet(input: &[u8]) -> Vec<BOp> {
    let mut a = vec![];
    a.extend(history_modes(input).into_iter().map(BOp::Mode));
    a.extend([BOp::Ecl(0), BOp::Ecl(3), BOp::Version(1), BOp::Version(2), BOp::Version(7)]);
    a.extend((0..8u8).map(BOp::Mask));
    a.push(BOp::Build);
    a.extend((0..N_OTHER).map(BOp::Other));
    a
}

fn apply_bop(b: &mut QRBuilder, m: &mut Opts, op: BOp) {
    match op {
        BOp::Mode(x) => {
            b.mode(MODES[x as usize]);
            m.mode = Some(x);
        }
        BOp::Ecl(x) => {
            b.ecl(ECLS[x as usize]);
            m.ecl = Some(x);
        }
        BOp::Version(x) => {
            b.version(VERSIONS[x as usize - 1]);
            m.version = Some(x);
        }
        BOp::Mask(x) => {
            b.mask(MASKS[x as usize]);
            m.mask = Some(x);
        }
        _ => {}
    }
}

/// replays one history on a fresh real builder; returns findings
fn run_history(input: &[u8], seq: &[BOp], expect: &HashMap<PCase, u64>, states: Option<&Mutex<HashSet<(usize, Opts)>>>, input_idx: usize) -> Vec<(String, String)> {
    let mut out = vec![];
    let r = subject::guarded(|| {
        let mut f = vec![];
        let mut b = QRBuilder::new(input.to_vec());
        let mut m = Opts::default();
        let mut builds = 0;
        for (i, &op) in seq.iter().enumerate() {
            match op {
                BOp::Build => {
                    builds += 1;
                    let got = subject::outcome_digest(&match subject::guarded(|| b.build()) {
                        Ok(r) => subject::classify(r),
                        Err(msg) => Outcome::Panic(msg),
                    });
                    let key = PCase { input: input.to_vec(), opts: m, render: Render::None };
                    match expect.get(&key) {
                        Some(&w) if w == got => {}
                        Some(_) => f.push(("history-dependent-build".to_string(), format!("step {}: build #{} on the shared builder with final options {:?} differs from a fresh builder with the same options in a pristine process", i, builds, m))),
                        None => f.push(("machinery".to_string(), format!("no pristine value for {:?}", m))),
                    }
                }
                BOp::Other(x) => {
                    let c = other_case(x);
                    let got = subject::outcome_digest(&subject::build(&c.input, &c.opts));
                    if expect.get(&c) != Some(&got) {
                        f.push(("other-build-affected".to_string(), format!("step {}: the unrelated build #{} differs from its pristine result", i, x)));
                    }
                }
                _ => apply_bop(&mut b, &mut m, op),
            }
            if let Some(st) = states {
                st.lock().unwrap().insert((input_idx, m));
            }
        }
        f
    });
    match r {
        Ok(f) => out.extend(f),
        Err(msg) => out.push(("panic".into(), format!("history panicked: {}", msg))),
    }
    out
}

// ---------------------------------------------------------------- (b) renderer histories

thread_local! {
    static FAIL_COUNT: std::cell::Cell<usize> = std::cell::Cell::new(0);
}

fn failing_shape(y: usize, x: usize, _m: fast_qr::Module) -> String {
    let n = FAIL_COUNT.with(|c| {
        c.set(c.get() + 1);
        c.get()
    });
    if n >= 50 {
        panic!("a caller-supplied shape that fails at its 50th module");
    }
    format!("M{},{}h1v1h-1", x, y)
}

#[derive(Clone, Debug, PartialEq)]
enum ROp {
    Set(SvgOp),
    Svg(usize),
    Term(usize),
}

fn renderer_alphabet() -> Vec<ROp> {
    vec![
        ROp::Set(SvgOp::Shape(1)),
        ROp::Set(SvgOp::ShapeColor(5, [255, 0, 0, 255])),
        // explicitly the colour the modules have by default: must survive a later module_color call
        ROp::Set(SvgOp::ShapeColor(2, [0, 0, 0, 255])),
        ROp::Set(SvgOp::Margin(1)),
        ROp::Set(SvgOp::ModuleColor([0, 128, 0, 255])),
        ROp::Set(SvgOp::Background([0, 0, 0, 0])),
        ROp::Set(SvgOp::Image("a&b.png".to_string())),
        // a non-square image background (some renderers emit extra elements for it)
        ROp::Set(SvgOp::Frame(1)),
        ROp::Svg(0),
        ROp::Svg(1),
        ROp::Term(0),
        ROp::Term(1),
        // a terminal rendering that fails part of the way through (a matrix whose side exceeds its storage; caught)
        ROp::Term(99),
        // an SVG rendering that fails part of the way through (a caller-supplied shape that panics at its 50th module;
        // caught), on a builder of its own
        ROp::Svg(99),
    ]
}

#[derive(Clone, Copy, Debug, PartialEq)]
enum IOp {
    Shape(usize),
    Margin(usize),
    FitW(u32),
    FitH(u32),
    Color([u8; 4]),
    Background([u8; 4]),
    Png(usize),
}

// Png(2) renders a third symbol with the same pixel dimensions as Png(0) but other modules: a buffer kept inside the
// renderer and reused without clearing only shows when two renders have the same size, and only through pixels the
// second render leaves untouched (a transparent background)
// two widths and two heights: a bound that is set, overridden by the other one, and set again
// FitW(0) asks for an empty picture: the render fails (a panic at the pinned commit). A failed render is part of a
// history like any other call; renders after it (with the width set again) must be what they are without it
const IMAGE_ALPHABET: [IOp; 12] = [IOp::Shape(1), IOp::Margin(1), IOp::FitW(84), IOp::FitW(150), IOp::FitH(100), IOp::FitH(60), IOp::Color([0, 128, 0, 255]), IOp::Background([0, 0, 0, 0]), IOp::Png(0), IOp::Png(1), IOp::Png(2), IOp::FitW(0)];

#[derive(Clone, Debug, Default, PartialEq, Eq, Hash)]
struct IModel {
    shapes: Vec<usize>,
    margin: Option<usize>,
    fw: Option<u32>,
    fh: Option<u32>,
    color: Option<[u8; 4]>,
    background: Option<[u8; 4]>,
}

impl IModel {
    fn fresh(&self) -> ImageBuilder {
        let mut b = ImageBuilder::default();
        for s in &self.shapes {
            b.shape(SHAPES[*s]);
        }
        if let Some(m) = self.margin {
            b.margin(m);
        }
        if let Some(w) = self.fw {
            b.fit_width(w);
        }
        if let Some(h) = self.fh {
            b.fit_height(h);
        }
        if let Some(c) = self.color {
            b.module_color(c);
        }
        if let Some(c) = self.background {
            b.background_color(c);
        }
        b
    }
}

fn render_symbols() -> Vec<(PCase, Box<QRCode>)> {
    let mut v = vec![];
    for (input, o) in [(&b"HELLO"[..], Opts { mode: None, ecl: Some(0), version: Some(1), mask: None, order: 0 }), (&b"https://example.com/c14"[..], Opts { mode: None, ecl: Some(1), version: Some(2), mask: None, order: 0 }), (&b"WORLD 2"[..], Opts { mode: None, ecl: Some(0), version: Some(1), mask: None, order: 0 })] {
        if let Outcome::Ok(q) = subject::build(input, &o) {
            v.push((PCase { input: input.to_vec(), opts: o, render: Render::None }, q));
        }
    }
    v
}

// ---------------------------------------------------------------- (c) schedules

#[derive(Clone, Debug)]
enum TOp {
    Build(PCase),
    Shared,
}

struct Program {
    name: &'static str,
    threads: Vec<Vec<TOp>>,
    shared: Option<PCase>,
    fine_bound: usize,
    coarse_bound: usize,
}

fn pc(input: &[u8], o: Opts, render: Render) -> PCase {
    PCase { input: input.to_vec(), opts: o, render }
}

fn programs(thorough: bool) -> Vec<Program> {
    let a = pc(b"HELLO WORLD", Opts::default(), Render::None);
    let b = pc(b"a longer byte payload that needs version three..", Opts { ecl: Some(1), ..Opts::default() }, Render::None);
    let a_svg = pc(b"HELLO WORLD", Opts::default(), Render::Svg("[{\"op\":\"shape\",\"shape\":1}]".to_string()));
    let b_term = pc(b"12345", Opts { ecl: Some(3), ..Opts::default() }, Render::Term);
    // version 2 (7 remainder bits), built after the version-3 symbol on the same thread
    let x2 = pc(b"HELLO WORLD 12345 ABCDEFG", Opts::default(), Render::None);
    let (f, c) = if thorough { (2, 3) } else { (1, 2) };
    vec![
        Program { name: "P1 two threads, different inputs (v1, v3)", threads: vec![vec![TOp::Build(a.clone())], vec![TOp::Build(b.clone())]], shared: None, fine_bound: f, coarse_bound: c },
        Program { name: "P2 two threads, same input", threads: vec![vec![TOp::Build(a.clone())], vec![TOp::Build(a.clone())]], shared: None, fine_bound: f, coarse_bound: c },
        Program { name: "P3 two threads sharing one &QRBuilder", threads: vec![vec![TOp::Shared], vec![TOp::Shared]], shared: Some(a.clone()), fine_bound: f, coarse_bound: c },
        Program { name: "P4 three threads (A, B, A)", threads: vec![vec![TOp::Build(a.clone())], vec![TOp::Build(b.clone())], vec![TOp::Build(a.clone())]], shared: None, fine_bound: 0, coarse_bound: 2 },
        Program { name: "P5 build + SVG render / build + terminal render", threads: vec![vec![TOp::Build(a_svg)], vec![TOp::Build(b_term)]], shared: None, fine_bound: f, coarse_bound: c },
        Program { name: "P7 large then smaller symbol with remainder bits on one thread, a small one on the other", threads: vec![vec![TOp::Build(b.clone()), TOp::Build(x2.clone())], vec![TOp::Build(a.clone())]], shared: None, fine_bound: f, coarse_bound: c },
        Program { name: "P6 two builds per thread, opposite order", threads: vec![vec![TOp::Build(a.clone()), TOp::Build(b.clone())], vec![TOp::Build(b), TOp::Build(a)]], shared: None, fine_bound: if thorough { 1 } else { 0 }, coarse_bound: 2 },
    ]
}

fn program_cases(p: &Program) -> Vec<PCase> {
    let mut v = vec![];
    for t in &p.threads {
        for op in t {
            match op {
                TOp::Build(c) => v.push(c.clone()),
                TOp::Shared => v.push(p.shared.clone().unwrap()),
            }
        }
    }
    v
}

// ---------------------------------------------------------------- source scan (assumption check)

fn source_scan() -> Vec<String> {
    let mut hits = vec![];
    fn walk(dir: &std::path::Path, hits: &mut Vec<String>) {
        if let Ok(rd) = std::fs::read_dir(dir) {
            let mut entries: Vec<_> = rd.flatten().collect();
            entries.sort_by_key(|e| e.path());
            for e in entries {
                let p = e.path();
                if p.is_dir() {
                    if p.file_name().map_or(false, |n| n == "tests") {
                        continue;
                    }
                    walk(&p, hits);
                } else if p.extension().map_or(false, |x| x == "rs") && p.file_name().map_or(true, |n| n != "verif.rs") {
                    if let Ok(txt) = std::fs::read_to_string(&p) {
                        for (ln, line) in txt.lines().enumerate() {
                            let code = line.split("//").next().unwrap_or("");
                            let stripped = code.replace("'static", "");
                            for tok in ["unsafe ", "unsafe{", "static ", "thread_local!", "Cell<", "RefCell", "Mutex", "RwLock", "Atomic", "OnceLock", "OnceCell", "lazy_static", "LazyLock"] {
                                if stripped.contains(tok) && !stripped.contains("deny(unsafe_code)") {
                                    hits.push(format!("{}:{}: {}", p.display(), ln + 1, line.trim()));
                                    break;
                                }
                            }
                        }
                    }
                }
            }
        }
    }
    let repo = std::env::var("VERIF_REPO").unwrap_or_else(|_| "/repo".to_string());
    walk(std::path::Path::new(&format!("{}/src", repo)), &mut hits);
    hits
}

// ---------------------------------------------------------------- replay

pub fn replay(case: &Value) -> Result<Vec<(String, String)>, String> {
    let kind = case.get("kind").and_then(|k| k.as_str()).unwrap_or("");
    match kind {
        "history" => {
            let idx = case.get("input_index").and_then(|x| x.as_u64()).ok_or("input_index")? as usize;
            let seq: Vec<BOp> = case.get("sequence").and_then(|s| s.as_array()).ok_or("sequence")?.iter().map(BOp::from_json).collect::<Option<Vec<_>>>().ok_or("bad op")?;
            let input = HISTORY_INPUTS[idx];
            // pristine values for the tuples this history visits
            let mut needed: Vec<PCase> = (0..N_OTHER).map(other_case).collect();
            let mut m = Opts::default();
            let mut b = QRBuilder::new(input.to_vec());
            for &op in &seq {
                apply_bop(&mut b, &mut m, op);
                needed.push(PCase { input: input.to_vec(), opts: m, render: Render::None });
            }
            needed.sort();
            needed.dedup();
            let expect = pristine_each(&needed)?;
            Ok(run_history(input, &seq, &expect, None, idx).into_iter().map(|(k, w)| (format!("C14/{}", k), w)).collect())
        }
        "alias" => {
            let input = crate::util::unhex(case.get("input_hex").and_then(|x| x.as_str()).ok_or("input_hex")?).ok_or("hex")?;
            let key = PCase { input: input.clone(), opts: Opts::default(), render: Render::None };
            let exp = pristine_each(&[key.clone()])?;
            let live: Vec<QRBuilder> = (0..64).map(|_| QRBuilder::new(input.clone())).collect();
            let mut out = vec![];
            for (j, b) in live.iter().enumerate() {
                let got = subject::outcome_digest(&match subject::guarded(|| b.build()) {
                    Ok(r) => subject::classify(r),
                    Err(m) => Outcome::Panic(m),
                });
                if exp.get(&key) != Some(&got) {
                    out.push(("C14/address-dependent-build".to_string(), format!("builder #{} differs from the pristine build", j)));
                    break;
                }
            }
            Ok(out)
        }
        "first-use-order" => {
            let a = case.get("order_a").and_then(|x| x.as_u64()).ok_or("order_a")? as usize;
            let b = case.get("order_b").and_then(|x| x.as_u64()).ok_or("order_b")? as usize;
            let key = case.get("key").and_then(|x| x.as_str()).ok_or("key")?;
            let (ma, mb) = (order_child(a)?, order_child(b)?);
            Ok(if ma.get(key) != mb.get(key) { vec![("C14/first-use-order-dependent".to_string(), format!("observation {} differs between the two orders", key))] } else { vec![] })
        }
        "tie-after" => {
            let t = crate::util::unhex(case.get("input_hex").and_then(|x| x.as_str()).ok_or("input_hex")?).ok_or("hex")?;
            let p = crate::util::unhex(case.get("previous_hex").and_then(|x| x.as_str()).ok_or("previous_hex")?).ok_or("hex")?;
            let key = PCase { input: t.clone(), opts: Opts::default(), render: Render::None };
            let expect = pristine_each(&[key.clone()])?;
            let _ = subject::build(&p, &Opts::default());
            let got = subject::outcome_digest(&subject::build(&t, &Opts::default()));
            Ok(if expect.get(&key) != Some(&got) { vec![("C14/history-dependent-build".to_string(), "the tie input built after its predecessor differs from its pristine build".to_string())] } else { vec![] })
        }
        "schedule" => {
            let pi = case.get("program_index").and_then(|x| x.as_u64()).ok_or("program_index")? as usize;
            let choices: Vec<usize> = case.get("choices").and_then(|s| s.as_array()).ok_or("choices")?.iter().filter_map(|x| x.as_u64().map(|x| x as usize)).collect();
            let fine = case.get("points").and_then(|x| x.as_str()) == Some("fine");
            let thorough = case.get("thorough").and_then(|x| x.as_bool()).unwrap_or(false);
            let progs = programs(thorough);
            let p = progs.get(pi).ok_or("program index")?;
            let expect = pristine_each(&{
                let mut c = program_cases(p);
                c.sort();
                c.dedup();
                c
            })?;
            let bodies = bodies_of(p);
            let x = sched::run_once(&bodies, &choices, if fine { sched::all_points } else { sched::coarse_points });
            if let Some(e) = x.error {
                return Err(format!("schedule does not replay: {}", e));
            }
            Ok(judge_execution(p, &x.results, &expect).into_iter().map(|(k, w)| (format!("C14/{}", k), w)).collect())
        }
        _ => Err(format!("no single-case replay for kind {}", kind)),
    }
}

type Body = Arc<dyn Fn(usize, &Sched) -> Vec<u64> + Send + Sync>;

/// The shared builder of program P3. `QRBuilder` is Send + Sync today; the wrapper asserts it
/// unconditionally so that the harness still compiles (and P3 still explores) if a change gives the
/// builder interior mutability. Under the controlled scheduler exactly one thread runs at a time and
/// every hand-over goes through a mutex, so no two accesses are ever concurrent.
struct SharedBuilder(QRBuilder);
unsafe impl Sync for SharedBuilder {}
unsafe impl Send for SharedBuilder {}

fn bodies_of(p: &Program) -> Vec<Body> {
    let shared_case: Option<PCase> = p.shared.clone();
    p.threads
        .iter()
        .map(|ops| {
            let ops = ops.clone();
            let shared_case = shared_case.clone();
            let f: Body = Arc::new(move |_tid, s| {
                ops.iter()
                    .map(|op| match op {
                        TOp::Build(c) => observe(c),
                        TOp::Shared => {
                            // one builder per EXECUTION (kept in the scheduler object of this execution): a builder
                            // that legitimately remembers its last result must not carry it into the next schedule
                            let b: Arc<dyn std::any::Any + Send + Sync> = {
                                let mut g = s.shared.lock().unwrap();
                                if g.is_none() {
                                    let c = shared_case.as_ref().unwrap();
                                    let mut b = QRBuilder::new(c.input.clone());
                                    c.opts.apply(&mut b);
                                    *g = Some(Arc::new(SharedBuilder(b)));
                                }
                                g.as_ref().unwrap().clone()
                            };
                            let sb = b.downcast_ref::<SharedBuilder>().unwrap();
                            match subject::guarded(|| sb.0.build()) {
                                Ok(r) => subject::outcome_digest(&subject::classify(r)),
                                Err(_) => 3,
                            }
                        }
                    })
                    .collect()
            });
            f
        })
        .collect()
}

fn judge_execution(p: &Program, results: &[Option<Vec<u64>>], expect: &HashMap<PCase, u64>) -> Vec<(String, String)> {
    let mut out = vec![];
    for (t, ops) in p.threads.iter().enumerate() {
        match &results[t] {
            None => out.push(("thread-panic".into(), format!("thread {} panicked", t))),
            Some(ds) => {
                for (i, op) in ops.iter().enumerate() {
                    let c = match op {
                        TOp::Build(c) => c.clone(),
                        TOp::Shared => p.shared.clone().unwrap(),
                    };
                    if expect.get(&c) != ds.get(i) {
                        out.push(("schedule-dependent-result".into(), format!("{}: thread {} operation {} returned a result that differs from the sequential pristine result", p.name, t, i)));
                    }
                }
            }
        }
    }
    out
}

// ---------------------------------------------------------------- the check

pub fn run(ctx: &Ctx) -> Collector {
    let col = Collector::new("C14", "model_checking");
    col.set_rule("(a) E2 builder histories: for 4 inputs (numeric, alphanumeric, bytes, lower-case text that is alphanumeric once upper-cased) ALL sequences of exactly depth D (quick 4; thorough 5 for the numeric and the lower-case input, 4 for the two others; every shorter history is a prefix) over {mode(each the input or its upper-case form allows), ecl(L|H), version(1|2|7), mask(all 8), build, other1..other4 (unrelated builds on builders that are dropped; 3 and 4 are fully automatic, of equal length and different character classes)} replayed on a fresh real QRBuilder; model state = option tuple; oracle at every build step: digest of (all 177x177 module bytes, size, four fields, or error kind) = digest computed by a fresh builder with the model tuple in a PRISTINE child process (one process per tuple); unrelated builds interleaved must equal their pristine values too. (b) E2 renderer histories: all sequences to depth 4 over {8 SvgBuilder setters, svg(q1|q2), term(q1|q2), a terminal rendering that fails, an SVG rendering that fails} and to depth 3 (thorough 4) over {5 ImageBuilder setters, png(q1|q2)}: every render = render of a fresh renderer built from the model state, the QRCode digest is unchanged after every render, and all distinct (state, symbol) renders are recomputed in reverse order in a fresh child process. (e) first-use orders: the forced-mask builds, automatic build and renders of versions 1,2,3,5,7,10,20,40 in 7 fresh processes that go through the versions in different orders; every observation equal across processes. (c) E3 schedules: 7 thread programs (2-3 real threads, 1-2 operations each, incl. two threads sharing one &QRBuilder) under the controlled scheduler at the guarded scheduling points: all interleavings with <= b preemptions (iterative bounding; fine point set and coarse point set, bounds in the evidence); oracle: every thread's result = its sequential pristine result; vacuity guard: racy canary outcomes. (d) E3-fine: the same scheduler driven by function-entry events of a second build of fast_qr (opt-level 0, -Zinstrument-mcount, nightly): 5 (thorough 8) thread programs incl. terminal and SVG renders of two sizes in opposite orders; all interleavings with <= 1 preemption at the first k (quick 1, thorough 3) entries of every (function, call site) pair per operation; expectations from fresh single-threaded processes. Supplementary (sampling, not part of the verdict basis): free-running 16-thread pass. non-trivial = a build or render was observed; distinct = distinct observation digests");
    col.assume("E3 (c) preempts at the guarded scheduling points (hook H3), E3-fine (d) at function entries inside the crate (first k per function and call site): a window that contains no call at all is not split; memory-ordering effects weaker than sequential consistency are out of scope (the crate has no atomics)");
    let thorough = ctx.tier.thorough();

    // ---- (d) runs in child processes of its own binary (nightly build, function-entry instrumentation); started
    // now, joined after (c)
    let fine_bin = format!("{}/target-fine/release/fqv-fine", ctx.verif_dir);
    let fine_handle = {
        let fine_bin = fine_bin.clone();
        std::thread::spawn(move || -> Result<Value, String> {
            if std::env::var("FQV_NO_FINE").is_ok() {
                return Err("disabled by FQV_NO_FINE".into());
            }
            if !std::path::Path::new(&fine_bin).exists() {
                return Err(format!("{} is not built (nightly toolchain build failed or was skipped; see ./check output)", fine_bin));
            }
            let out = std::process::Command::new(&fine_bin).args(["explore", if thorough { "thorough" } else { "quick" }]).output().map_err(|e| e.to_string())?;
            if !out.status.success() {
                return Err(format!("fqv-fine explore exited with {:?}: {}", out.status, String::from_utf8_lossy(&out.stderr).chars().take(400).collect::<String>()));
            }
            serde_json::from_slice::<Value>(&out.stdout).map_err(|e| format!("fqv-fine explore printed no JSON: {}", e))
        })
    };

    // ---- assumption check: source scan
    let scan = source_scan();
    col.set("source_scan_hits", json!(scan));
    if scan.is_empty() {
        col.assume("source scan of /repo/src (outside verif.rs and tests/): no unsafe, static, thread_local!, Cell/RefCell/Mutex/RwLock/Atomic*/OnceLock: no state the scheduler does not see");
    } else {
        col.assume(&format!("WEAKENED: source scan found {} line(s) with statics / interior mutability / unsafe outside the hook module (listed under coverage.source_scan_hits)", scan.len()));
    }

    // ---- (a) builder histories
    let t0 = std::time::Instant::now();
    let depth = if thorough { 5 } else { 4 };
    let mut needed: Vec<PCase> = (0..N_OTHER).map(other_case).collect();
    let (ties, preds) = tie_inputs(thorough);
    for t in ties.iter().chain(preds.iter()) {
        needed.push(PCase { input: t.clone(), opts: Opts::default(), render: Render::None });
    }
    for input in HISTORY_INPUTS {
        for mode in std::iter::once(None).chain(history_modes(input).into_iter().map(Some)) {
            for ecl in [None, Some(0), Some(3)] {
                for version in [None, Some(1), Some(2), Some(7)] {
                    for mask in std::iter::once(None).chain((0..8u8).map(Some)) {
                        needed.push(PCase { input: input.to_vec(), opts: Opts { mode, ecl, version, mask, order: 0 }, render: Render::None });
                    }
                }
            }
        }
    }
    let expect = match pristine_each(&needed) {
        Ok(e) => e,
        Err(e) => {
            col.machinery_error(format!("pristine children: {}", e));
            return col;
        }
    };
    col.set("pristine_child_processes_builder", json!(needed.len()));
    // tie the pristine values of forced-mask tuples to the reference encoder as well
    for c in &needed {
        if let (Some(k), Some(v)) = (c.opts.mask, c.opts.version) {
            let m = c.opts.mode.map(|m| m as usize).unwrap_or_else(|| crate::refmodel::auto_mode(&c.input));
            let e = c.opts.ecl.map(|e| e as usize).unwrap_or(2);
            if crate::refmodel::mode_accepts(m, &c.input) && crate::refmodel::fits(v as usize, e, m, c.input.len()) {
                if let Outcome::Ok(q) = subject::build(&c.input, &c.opts) {
                    if subject::values(&q) != crate::refmodel::encode_symbol(&c.input, m, e, v as usize, k as usize) {
                        col.violation((0, 0), "C14/differs-from-reference-encoder".into(), format!("build with {:?} differs from R.enc", c.opts), json!({"kind": "build", "input_hex": crate::util::hex(&c.input), "opts": c.opts.to_json()}));
                    }
                }
            }
        }
    }
    // (a') ties: every tie input built right after every predecessor (and after itself), nothing else running in the
    // process: the result must be the pristine one whatever was built before
    let mut tie_runs = 0u64;
    for (ti, t) in ties.iter().enumerate() {
        let key = PCase { input: t.clone(), opts: Opts::default(), render: Render::None };
        for (pi, p) in preds.iter().chain(std::iter::once(t)).enumerate() {
            let _ = subject::build(p, &Opts::default());
            let got = subject::outcome_digest(&subject::build(t, &Opts::default()));
            tie_runs += 1;
            col.eval(Some(crate::util::fnv(format!("tie{}-{}", ti, pi).as_bytes())));
            if expect.get(&key) != Some(&got) {
                col.violation((0, (ti * 16 + pi) as u64), "C14/history-dependent-build".into(), format!("{:?} (two or more masks tie for the lowest documented penalty) built right after {:?} differs from its build in a pristine process", String::from_utf8_lossy(t), String::from_utf8_lossy(p)), json!({"kind": "tie-after", "input_hex": crate::util::hex(t), "previous_hex": crate::util::hex(p)}));
            }
        }
    }
    col.space(json!({"name": "(a') tie inputs after predecessors", "cases": tie_runs, "tie_inputs": ties.len(), "predecessors": preds.len(), "what": "inputs whose documented selection is a tie (found with R), each built right after each of up to 8 predecessors with different documented winners and after itself; result = pristine process", "exhaustive": true}));
    // (a'') the same input held by 64 live builders (their buffers lie at different addresses and alignments): every one
    // of them builds the pristine result
    let alias_inputs: Vec<Vec<u8>> = vec![
        b"HTTPS://EXAMPLE.COM/FAST-QR/ADDRESS/INDEPENDENT/CLASSIFICATION/0123456".to_vec(),
        b"0123456789012345678901234567890123456789012345678901234567890123".to_vec(),
        b"https://example.com/fast-qr/address/independent/classification/of/a/longer/lower-case/text/0123456789".to_vec(),
        b"ABCDEFGHIJKLMNOPQRSTUVWXYZ $%*+-./".to_vec(),
        b"A1".to_vec(),
    ];
    {
        let keys: Vec<PCase> = alias_inputs.iter().map(|i| PCase { input: i.clone(), opts: Opts::default(), render: Render::None }).collect();
        match pristine_each(&keys) {
            Ok(exp) => {
                for (ai, input) in alias_inputs.iter().enumerate() {
                    let mut live: Vec<QRBuilder> = vec![];
                    let mut pad: Vec<Vec<u8>> = vec![];
                    for j in 0..64usize {
                        // odd-sized allocations in between shift the next buffer
                        pad.push(vec![0u8; 8 + 24 * (j % 5)]);
                        live.push(QRBuilder::new(input.clone()));
                    }
                    for (j, b) in live.iter().enumerate() {
                        let got = subject::outcome_digest(&match subject::guarded(|| b.build()) {
                            Ok(r) => subject::classify(r),
                            Err(m) => Outcome::Panic(m),
                        });
                        col.eval(Some(crate::util::fnv(format!("alias{}-{}", ai, j).as_bytes())));
                        if exp.get(&keys[ai]) != Some(&got) {
                            col.violation((0, (500 + ai * 64 + j) as u64), "C14/address-dependent-build".into(), format!("builder #{} of 64 live builders holding the same {}-byte input builds something else than a pristine process does", j, input.len()), json!({"kind": "alias", "input_hex": crate::util::hex(input), "builder": j}));
                            break;
                        }
                    }
                    drop(pad);
                    // the same bytes handed over in other containers (spare capacity, grown by pushes, String)
                    for order in 72..=74u8 {
                        let got = subject::outcome_digest(&subject::build(input, &Opts { order, ..Opts::default() }));
                        col.eval(Some(crate::util::fnv(format!("alias{}-o{}", ai, order).as_bytes())));
                        if exp.get(&keys[ai]) != Some(&got) {
                            col.violation((0, (900 + ai * 4 + order as usize) as u64), "C14/container-dependent-build".into(), format!("the {}-byte input handed over as {} builds something else than the same bytes in an exact Vec do in a pristine process", input.len(), ["a Vec with 9000 bytes of spare capacity", "a Vec grown by pushes", "a String"][(order - 72) as usize]), subject::case_json(input, &Opts { order, ..Opts::default() }));
                        }
                    }
                }
            }
            Err(e) => col.machinery_error(format!("pristine children: {}", e)),
        }
        col.space(json!({"name": "(a'') one input in 64 live builders", "cases": alias_inputs.len() * 64, "what": "5 inputs (alphanumeric 70 bytes, 64 digits, lower-case 100 bytes, the 34-character alphanumeric alphabet, 2 bytes) each held by 64 builders that are alive at the same time, with odd-sized allocations in between: every builder builds the pristine result", "exhaustive": true}));
    }
    let states: Mutex<HashSet<(usize, Opts)>> = Mutex::new(HashSet::new());
    let transitions = AtomicU64::new(0);
    let mut nseq = 0u64;
    let max_depth = depth;
    for (ii, input) in HISTORY_INPUTS.iter().enumerate() {
        let alpha = builder_alphabet(input);
        // thorough: depth 5 for the numeric and the lower-case input, depth 4 for the two others (21-22 operations:
        // 4.1 - 5.2 M histories per input at depth 5)
        let depth = if max_depth == 5 && !(ii == 0 || ii == 3) { 4 } else { max_depth };
        let count = alpha.len().pow(depth as u32);
        nseq += count as u64;
        pool::par_for(count, |idx| {
            let mut seq = Vec::with_capacity(depth);
            let mut x = idx;
            for _ in 0..depth {
                seq.push(alpha[x % alpha.len()]);
                x /= alpha.len();
            }
            seq.reverse();
            transitions.fetch_add(depth as u64, Ordering::Relaxed);
            let f = run_history(input, &seq, &expect, Some(&states), ii);
            col.eval(Some(crate::util::fnv(format!("{}{:?}", ii, seq).as_bytes())));
            for (k, w) in f {
                col.violation((1 + ii as u64, idx as u64), format!("C14/{}", k), w, json!({"kind": "history", "input_index": ii, "input": String::from_utf8_lossy(input), "sequence": seq.iter().map(|o| o.to_json()).collect::<Vec<_>>()}));
            }
        });
    }
    let n_states_a = states.lock().unwrap().len() as u64;
    col.space(json!({"name": "(a) builder histories", "cases": nseq, "depth": depth, "model_states": n_states_a, "transitions": transitions.load(Ordering::Relaxed), "what": "all call sequences of exactly that depth on a shared builder per input, every build step compared with a pristine child process", "exhaustive": true, "wall_s": (t0.elapsed().as_secs_f64() * 100.0).round() / 100.0}));
    col.sample(json!({"kind": "history", "input_index": 0, "sequence": [BOp::Mask(5).to_json(), BOp::Build.to_json(), BOp::Other(0).to_json(), BOp::Build.to_json()]}));

    // ---- (e) first-use orders: the same builds and renders in 7 fresh processes, each in another order of sizes
    {
        let te = std::time::Instant::now();
        // run N_ORDERS = order 0 under another environment (COLUMNS, LINES, TERM, NO_COLOR, locale, time zone, HOME)
        let maps: Mutex<Vec<Option<BTreeMap<String, u64>>>> = Mutex::new(vec![None; N_ORDERS + 1]);
        pool::par_for(N_ORDERS + 1, |o| match order_child(o) {
            Ok(m) => maps.lock().unwrap()[o] = Some(m),
            Err(e) => col.machinery_error(e),
        });
        let maps = maps.into_inner().unwrap();
        let mut keys = 0usize;
        if let Some(Some(base)) = maps.first() {
            keys = base.len();
            for (o, m) in maps.iter().enumerate().skip(1) {
                let m = match m {
                    Some(m) => m,
                    None => continue,
                };
                for (k, d) in base {
                    col.eval(Some(crate::util::fnv(format!("order{}{}", o, k).as_bytes())));
                    if m.get(k) != Some(d) {
                        if o >= N_ORDERS {
                            col.violation((9, o as u64), "C14/environment-dependent".into(), format!("observation {} (b<version>m<mask> = forced build, auto = automatic build, t/s/si/p/pf = terminal, SVG, SVG with layers and image, PNG, fitted PNG of that symbol) differs between two processes that do the same in the same order, one of them with {:?} in its environment", k, OTHER_ENV), json!({"kind": "first-use-order", "order_a": 0, "order_b": o, "key": k}));
                        } else {
                            col.violation((9, o as u64), "C14/first-use-order-dependent".into(), format!("observation {} (b<version>m<mask> = forced build, auto = automatic build, t/s/si/p/pf = terminal, SVG, SVG with layers and image, PNG, fitted PNG of that symbol) differs between a process that works through versions {:?} and one that works through {:?}", k, order_sequence(0), order_sequence(o)), json!({"kind": "first-use-order", "order_a": 0, "order_b": o, "key": k}));
                        }
                        break;
                    }
                }
            }
        }
        col.space(json!({"name": "(e) first-use orders", "cases": keys * (N_ORDERS + 1), "orders": N_ORDERS, "environments": 2, "observations_per_order": keys, "what": "for versions 1,2,3,5,7,10,20,40: the 8 forced-mask builds, the automatic build and its terminal / SVG / layered SVG with image / PNG / fitted PNG renders, in 7 fresh processes that go through the versions in different orders (ascending, descending, starting at 2, 3, 5, 7, zig-zag from 40), and once more in the first order under another environment (COLUMNS, LINES, TERM, NO_COLOR, locale, time zone, HOME): every observation equal across processes", "exhaustive": true, "wall_s": (te.elapsed().as_secs_f64() * 100.0).round() / 100.0}));
    }

    // ---- (b) renderer histories
    let t1 = std::time::Instant::now();
    let syms = render_symbols();
    if syms.len() != 3 {
        col.machinery_error("render symbols".into());
        return col;
    }
    let sym_digest: Vec<u64> = syms.iter().map(|(_, q)| subject::digest(q)).collect();
    // terminal renderings of the two symbols, each computed in its own pristine process
    let term_cases: Vec<PCase> = syms.iter().map(|(c, _)| PCase { render: Render::Term, ..c.clone() }).collect();
    let term_expect: Vec<u64> = match pristine_each(&term_cases) {
        Ok(m) => term_cases.iter().map(|c| m[c]).collect(),
        Err(e) => {
            col.machinery_error(format!("pristine children: {}", e));
            return col;
        }
    };
    let ralpha = renderer_alphabet();
    let rdepth = 4;
    let rstates: Mutex<HashSet<String>> = Mutex::new(HashSet::new());
    // distinct (program producing the state, symbol) renders, for the cross-process anchor
    let rendered: Mutex<BTreeMap<(String, usize), u64>> = Mutex::new(BTreeMap::new());
    let rtrans = AtomicU64::new(0);
    let rcount = ralpha.len().pow(rdepth as u32);
    pool::par_for(rcount, |idx| {
        let mut seq = Vec::with_capacity(rdepth);
        let mut x = idx;
        for _ in 0..rdepth {
            seq.push(ralpha[x % ralpha.len()].clone());
            x /= ralpha.len();
        }
        seq.reverse();
        rtrans.fetch_add(rdepth as u64, Ordering::Relaxed);
        let res = subject::guarded(|| {
            let mut f: Vec<(String, String)> = vec![];
            let mut b = SvgBuilder::default();
            let mut model = SvgModel::default();
            let mut setters: Vec<SvgOp> = vec![];
            for (i, op) in seq.iter().enumerate() {
                match op {
                    ROp::Set(s) => {
                        s.apply_real(&mut b);
                        s.apply_model(&mut model);
                        setters.push(s.clone());
                    }
                    ROp::Svg(99) => {
                        let _ = subject::guarded(|| {
                            let mut fb = SvgBuilder::default();
                            fb.shape(fast_qr::convert::Shape::Square).shape(fast_qr::convert::Shape::Command(failing_shape));
                            FAIL_COUNT.with(|c| c.set(0));
                            fb.to_str(&syms[0].1).len()
                        });
                    }
                    ROp::Svg(qi) => {
                        let got = b.to_str(&syms[*qi].1);
                        let want = model.to_builder().to_str(&syms[*qi].1);
                        if got != want {
                            f.push(("history-dependent-svg".into(), format!("step {}: SVG of the used builder differs from a fresh builder with the same final options", i)));
                        }
                        let prog = Value::Array(setters.iter().map(|o| o.to_json()).collect()).to_string();
                        let d = crate::util::Fnv::new().add_u64(subject::digest(&syms[*qi].1)).add(got.as_bytes()).get();
                        rendered.lock().unwrap().insert((prog, *qi), d);
                    }
                    ROp::Term(99) => {
                        let _ = subject::guarded(|| QRCode::default(200).to_str());
                    }
                    ROp::Term(qi) => {
                        let a = syms[*qi].1.to_str();
                        let d = crate::util::Fnv::new().add_u64(subject::digest(&syms[*qi].1)).add(a.as_bytes()).get();
                        if d != term_expect[*qi] {
                            f.push(("history-dependent-terminal".into(), format!("step {}: the terminal rendering differs from the rendering of the same symbol in a pristine process", i)));
                        }
                    }
                }
                for (qi, (_, q)) in syms.iter().enumerate() {
                    if subject::digest(q) != sym_digest[qi] {
                        f.push(("render-modified-qrcode".into(), format!("step {}: the QRCode changed after a render", i)));
                    }
                }
                rstates.lock().unwrap().insert(model.key());
            }
            f
        });
        col.eval(Some(crate::util::fnv(format!("r{:?}", seq).as_bytes())));
        let f = match res {
            Ok(f) => f,
            Err(m) => vec![("panic".into(), format!("renderer history panicked: {}", m))],
        };
        for (k, w) in f {
            col.violation((10, idx as u64), format!("C14/{}", k), w, json!({"kind": "render-history", "sequence": format!("{:?}", seq)}));
        }
    });
    // cross-process anchor: recompute all distinct renders in reverse order in one fresh child
    let rendered = rendered.into_inner().unwrap();
    let mut list: Vec<(PCase, u64)> = rendered.iter().map(|((prog, qi), d)| (PCase { input: syms[*qi].0.input.clone(), opts: syms[*qi].0.opts, render: Render::Svg(prog.clone()) }, *d)).collect();
    list.reverse();
    match pristine_child(&list.iter().map(|(c, _)| c.clone()).collect::<Vec<_>>()) {
        Ok(ds) => {
            for (i, ((c, d), got)) in list.iter().zip(ds.iter()).enumerate() {
                if d != got {
                    col.violation((11, i as u64), "C14/svg-differs-across-processes".into(), "an SVG render differs between this process (after many other renders) and a fresh child process rendering in reverse order".into(), json!({"kind": "render-anchor", "case": c.to_json()}));
                }
            }
            col.evals_add(ds.len() as u64);
        }
        Err(e) => col.machinery_error(format!("render anchor child: {}", e)),
    }
    // ImageBuilder histories
    // depth 4 in both tiers: set, set, set again, render
    let idepth = 4;
    let icount = IMAGE_ALPHABET.len().pow(idepth as u32);
    let istates: Mutex<HashSet<IModel>> = Mutex::new(HashSet::new());
    // pass 0: histories without a failing render (their renders are the baseline per (state, symbol));
    // pass 1: histories that contain the failing render
    let baseline: Mutex<HashMap<(IModel, usize), u64>> = Mutex::new(HashMap::new());
    let png_outcome = |b: &ImageBuilder, q: &QRCode| -> u64 {
        match subject::guarded(|| b.to_bytes(q)) {
            Ok(Ok(bytes)) => crate::util::fnv(&bytes) | 4,
            Ok(Err(_)) => 1,
            Err(_) => 3,
        }
    };
    for pass in 0..2 {
    pool::par_for(icount, |idx| {
        let mut seq = vec![];
        let mut x = idx;
        for _ in 0..idepth {
            seq.push(IMAGE_ALPHABET[x % IMAGE_ALPHABET.len()]);
            x /= IMAGE_ALPHABET.len();
        }
        seq.reverse();
        if seq.iter().any(|o| matches!(o, IOp::FitW(0))) != (pass == 1) {
            return;
        }
        rtrans.fetch_add(idepth as u64, Ordering::Relaxed);
        let res = subject::guarded(|| {
            let mut f: Vec<(String, String)> = vec![];
            let mut b = ImageBuilder::default();
            let mut m = IModel::default();
            for (i, op) in seq.iter().enumerate() {
                match *op {
                    IOp::Shape(s) => {
                        b.shape(SHAPES[s]);
                        m.shapes.push(s);
                    }
                    IOp::Margin(x) => {
                        b.margin(x);
                        m.margin = Some(x);
                    }
                    IOp::FitW(w) => {
                        b.fit_width(w);
                        m.fw = Some(w);
                    }
                    IOp::FitH(h) => {
                        b.fit_height(h);
                        m.fh = Some(h);
                    }
                    IOp::Color(c) => {
                        b.module_color(c);
                        m.color = Some(c);
                    }
                    IOp::Background(c) => {
                        b.background_color(c);
                        m.background = Some(c);
                    }
                    IOp::Png(qi) => {
                        let got = png_outcome(&b, &syms[qi].1);
                        let want = png_outcome(&m.fresh(), &syms[qi].1);
                        if got != want {
                            f.push(("history-dependent-png".into(), format!("step {}: PNG of the used ImageBuilder differs from a fresh one with the same final options", i)));
                        }
                        let key = (m.clone(), qi);
                        let known = baseline.lock().unwrap().get(&key).copied();
                        match known {
                            Some(b0) if b0 != got => f.push(("history-dependent-png".into(), format!("step {}: this render (final options {:?}, symbol {}) differs from the same render in a history without a failed render before it", i, m, qi))),
                            None if pass == 0 => {
                                baseline.lock().unwrap().insert(key, got);
                            }
                            _ => {}
                        }
                        if subject::digest(&syms[qi].1) != sym_digest[qi] {
                            f.push(("render-modified-qrcode".into(), format!("step {}: the QRCode changed after a PNG render", i)));
                        }
                    }
                }
                istates.lock().unwrap().insert(m.clone());
            }
            f
        });
        col.eval(Some(crate::util::fnv(format!("i{:?}", seq).as_bytes())));
        let f = match res {
            Ok(f) => f,
            Err(m) => vec![("panic".into(), format!("image history panicked: {}", m))],
        };
        for (k, w) in f {
            col.violation((12, idx as u64), format!("C14/{}", k), w, json!({"kind": "render-history", "sequence": format!("{:?}", seq)}));
        }
    });
    }
    let n_states_b = rstates.lock().unwrap().len() as u64 + istates.lock().unwrap().len() as u64;
    col.space(json!({"name": "(b) renderer histories", "cases": rcount + icount, "svg_depth": rdepth, "image_depth": idepth, "model_states": n_states_b, "distinct_renders_rechecked_in_fresh_process": list.len(), "what": "all SvgBuilder/terminal call sequences of depth 4 and ImageBuilder sequences; every render vs a fresh renderer, QRCode digest after every render, cross-process anchor", "exhaustive": true, "wall_s": (t1.elapsed().as_secs_f64() * 100.0).round() / 100.0}));

    // ---- (c) schedules
    let t2 = std::time::Instant::now();
    let progs = programs(thorough);
    let mut all_cases: Vec<PCase> = progs.iter().flat_map(program_cases).collect();
    all_cases.sort();
    all_cases.dedup();
    let sexpect = match pristine_each(&all_cases) {
        Ok(e) => e,
        Err(e) => {
            col.machinery_error(format!("pristine children: {}", e));
            return col;
        }
    };
    // (c) runs all executions of a program in this one process: if the subject keeps process-wide state (a correct
    // cache is enough) the sequence of named points of an execution depends on what ran before, and a schedule
    // prefix can stop replaying. That is recorded here and judged after (d), whose executions are fork-isolated.
    let c_divergences: Mutex<Vec<String>> = Mutex::new(vec![]);
    let sched_total = AtomicU64::new(0);
    #[allow(unused_assignments)]
    let mut fine_total = 0u64;
    let sched_info: Mutex<Vec<Value>> = Mutex::new(vec![]);
    let cap: u64 = if thorough { 400_000 } else { 30_000 };
    // jobs: (program, fine?)
    let mut jobs = vec![];
    for pi in 0..progs.len() {
        jobs.push((pi, true));
        jobs.push((pi, false));
    }
    pool::par_for(jobs.len(), |ji| {
        let (pi, fine) = jobs[ji];
        let p = &progs[pi];
        let bound = if fine { p.fine_bound } else { p.coarse_bound };
        let bodies = bodies_of(p);
        let mut subject_outcomes: HashSet<Vec<Option<Vec<u64>>>> = HashSet::new();
        let mut canary_outcomes: HashSet<u64> = HashSet::new();
        let mut first_bad: Option<(Vec<usize>, Vec<(String, String)>)> = None;
        let mut machinery: Option<String> = None;
        let mut last_choices: Vec<usize> = vec![];
        let ex = sched::explore(&bodies, bound, if fine { sched::all_points } else { sched::coarse_points }, cap, &mut |choices, x| {
            if let Some(e) = &x.error {
                machinery = Some(e.clone());
            }
            subject_outcomes.insert(x.results.clone());
            canary_outcomes.insert(x.canary);
            let f = judge_execution(p, &x.results, &sexpect);
            if !f.is_empty() && first_bad.is_none() {
                first_bad = Some((choices.to_vec(), f));
            }
            last_choices = choices.to_vec();
        });
        sched_total.fetch_add(ex.schedules, Ordering::Relaxed);
        // determinism: replay the last schedule twice and compare observations
        let r1 = sched::run_once(&bodies, &last_choices, if fine { sched::all_points } else { sched::coarse_points });
        let r2 = sched::run_once(&bodies, &last_choices, if fine { sched::all_points } else { sched::coarse_points });
        if r1.results != r2.results || r1.canary != r2.canary || r1.decisions != r2.decisions {
            if r1.results != r2.results {
                col.violation((20, ji as u64), "C14/same-schedule-different-result".into(), format!("{}: replaying one recorded schedule twice gave different results", p.name), json!({"kind": "schedule", "program_index": pi, "points": if fine { "fine" } else { "coarse" }, "thorough": thorough, "choices": last_choices}));
            } else {
                machinery = Some("replaying one schedule twice gave different scheduling decisions (harness does not own all nondeterminism)".into());
            }
        }
        if let Some(m) = machinery {
            c_divergences.lock().unwrap().push(format!("{} ({} points): {}", p.name, if fine { "fine" } else { "coarse" }, m));
        }
        if ex.capped {
            col.cap_hit(&format!("{} ({} points): schedule cap {} reached at preemption bound {}", p.name, if fine { "fine" } else { "coarse" }, cap, bound));
        }
        if let Some((choices, f)) = first_bad {
            for (k, w) in f {
                col.violation((20, ji as u64), format!("C14/{}", k), w, json!({"kind": "schedule", "program_index": pi, "points": if fine { "fine" } else { "coarse" }, "thorough": thorough, "choices": choices}));
            }
        }
        for o in &subject_outcomes {
            col.digest(crate::util::fnv(format!("{}{:?}", pi, o).as_bytes()));
        }
        sched_info.lock().unwrap().push(json!({"program": p.name, "threads": p.threads.len(), "points": if fine { "fine" } else { "coarse" }, "preemption_bound_completed": if ex.capped { Value::Null } else { json!(bound) }, "schedules": ex.schedules, "max_decisions_per_schedule": ex.max_decisions, "distinct_subject_outcomes": subject_outcomes.len(), "distinct_canary_outcomes": canary_outcomes.len(), "capped": ex.capped}));
    });
    let mut info = sched_info.into_inner().unwrap();
    info.sort_by_key(|v| v.to_string());
    let vacuous = info.iter().all(|v| v["distinct_canary_outcomes"].as_u64().unwrap_or(0) <= 1);
    if vacuous {
        col.machinery_error("E3 vacuity guard: the racy canary showed a single outcome in every program: the scheduler did not produce different interleavings".into());
    }
    let st = sched_total.load(Ordering::Relaxed);
    col.evals_add(st);
    col.set("schedules", json!(st));
    col.set("schedule_programs", Value::Array(info));
    col.space(json!({"name": "(c) schedules", "cases": st, "what": "all interleavings of the thread programs at the guarded scheduling points up to the preemption bounds listed under schedule_programs", "exhaustive": true, "wall_s": (t2.elapsed().as_secs_f64() * 100.0).round() / 100.0}));
    col.sample(json!({"kind": "schedule", "program_index": 0, "points": "coarse", "choices": [0, 0, 1, 0]}));

    // ---- (d) schedules at function-entry granularity
    match fine_handle.join().unwrap_or_else(|_| Err("fine exploration thread panicked".into())) {
        Ok(rep) => {
            let mut n = 0u64;
            let mut one_canary = true;
            for p in rep["programs"].as_array().into_iter().flatten() {
                n += p["schedules"].as_u64().unwrap_or(0);
                if p["distinct_canary_outcomes"].as_u64().unwrap_or(0) > 1 {
                    one_canary = false;
                }
                col.digest(crate::util::fnv(p.to_string().as_bytes()));
            }
            for v in rep["violations"].as_array().into_iter().flatten() {
                let key = v["key"].as_str().unwrap_or("C14/schedule-dependent-result").to_string();
                for _ in 0..v["cases"].as_u64().unwrap_or(1).min(50) {
                    col.violation((25, 0), key.clone(), format!("(function-entry granularity) {}", v["what"].as_str().unwrap_or("")), v["case"].clone());
                }
            }
            let viol = rep["violations"].as_array().map_or(0, |a| a.len());
            for m in rep["machinery"].as_array().into_iter().flatten() {
                // with a violation on the table these are consequences of the same defect (the sequence of function
                // entries depends on hidden state); without one they are a machinery problem
                if viol == 0 {
                    col.machinery_error(format!("(d) {}", m.as_str().unwrap_or("")));
                }
            }
            for c in rep["cuts"].as_array().into_iter().flatten() {
                col.cap_hit(&format!("(d) {}", c.as_str().unwrap_or("")));
            }
            if n > 0 && one_canary {
                col.machinery_error("E3-fine vacuity guard: the racy canary showed a single outcome in every program".into());
            }
            col.evals_add(n);
            col.set("schedules", json!(st + n));
            col.set("fine_schedule_programs", rep["programs"].clone());
            col.space(json!({"name": "(d) schedules at function-entry granularity", "cases": n, "k": rep["k"], "preemption_bound": rep["preemption_bound"], "what": "all interleavings with <= 1 preemption at candidate points = the first k entries of every (function, call site) pair in every operation, fast_qr compiled at opt-level 0 with -Zinstrument-mcount (every function entered inside the crate, including std generics and inline std functions such as Mutex::lock / Atomic*::load instantiated there); programs under fine_schedule_programs", "exhaustive": true, "wall_s": rep["wall_s"]}));
            col.sample(json!({"kind": "schedule-fine", "program": 0, "k": 1, "choices": [[0, 700], [1, 1]]}));
            fine_total = n;
            let divs: Vec<String> = c_divergences.lock().unwrap().drain(..).collect();
            if !divs.is_empty() {
                for d in divs.iter().take(4) {
                    col.cap_hit(&format!("(c) {} — the sequence of named scheduling points depends on what ran earlier in the process (the subject keeps process-wide state); this program is decided by (d), whose executions each run in a fresh process", d));
                }
                col.assume("WEAKENED: sub-exploration (c) could not replay its schedule prefixes for some programs (process-wide state in the subject); schedules are decided by (d) for those");
            }
        }
        Err(e) => {
            for d in c_divergences.lock().unwrap().drain(..) {
                col.machinery_error(d);
            }
            eprintln!("NOTE: C14 (d) fine-grained schedule exploration did not run: {}", e);
            col.cap_hit(&format!("(d) function-entry-granularity schedule exploration did not run: {}", e));
            col.assume("WEAKENED: sub-exploration (d) did not run; schedules are covered at the guarded scheduling points only");
        }
    }

    // ---- supplementary free-running pass (SAMPLING of OS schedules; labelled; it cannot justify "holds",
    // but a mismatch it finds is a real violation). 16 threads start on a barrier and build symbols of four
    // different versions in thread-specific orders for a fixed time; every result is compared with its
    // pristine digest. This is the only part that can hit a race window that contains no scheduling point.
    let stress_cases: Vec<PCase> = vec![
        pc(b"HELLO WORLD", Opts::default(), Render::None),
        pc(b"a longer byte payload that needs version three..", Opts { ecl: Some(1), ..Opts::default() }, Render::None),
        pc(b"0123456789012345678901234567890123456789012345678901234567890123456789", Opts { ecl: Some(3), ..Opts::default() }, Render::None),
        pc(b"https://example.com/some/longer/path?with=query&and=more#fragment-identifier-0123456789-abcdefghijklmnopqrstuvwxyz", Opts::default(), Render::None),
        pc(b"HELLO WORLD", Opts { version: Some(2), ..Opts::default() }, Render::None),
    ];
    let stress_expect = match pristine_each(&stress_cases) {
        Ok(e) => e,
        Err(e) => {
            col.machinery_error(format!("pristine children: {}", e));
            return col;
        }
    };
    let secs = if thorough { 20.0 } else { 3.0 };
    let bad = AtomicU64::new(0);
    let done = AtomicU64::new(0);
    let first_bad: Mutex<Option<String>> = Mutex::new(None);
    let barrier = std::sync::Barrier::new(16);
    std::thread::scope(|s| {
        for t in 0..16usize {
            let stress_cases = &stress_cases;
            let stress_expect = &stress_expect;
            let (bad, done, barrier, first_bad) = (&bad, &done, &barrier, &first_bad);
            s.spawn(move || {
                barrier.wait();
                let t0 = std::time::Instant::now();
                let mut r = t;
                while t0.elapsed().as_secs_f64() < secs {
                    // thread-specific order; every few rounds all threads hammer two versions only
                    let c = &stress_cases[(r * (t % 4 + 1) + t) % stress_cases.len()];
                    if stress_expect.get(c) != Some(&observe(c)) {
                        bad.fetch_add(1, Ordering::Relaxed);
                        let mut fb = first_bad.lock().unwrap();
                        if fb.is_none() {
                            *fb = Some(format!("thread {} round {} input {:?} opts {:?}", t, r, String::from_utf8_lossy(&c.input), c.opts));
                        }
                    }
                    done.fetch_add(1, Ordering::Relaxed);
                    r += 1;
                }
            });
        }
    });
    if bad.load(Ordering::Relaxed) > 0 {
        col.violation((30, 0), "C14/free-running-mismatch".into(), format!("{} of {} builds on 16 free-running threads differ from their sequential pristine result (first: {})", bad.load(Ordering::Relaxed), done.load(Ordering::Relaxed), first_bad.lock().unwrap().clone().unwrap_or_default()), json!({"kind": "free-running"}));
    }
    col.set("supplementary_free_running", json!({"threads": 16, "seconds": secs, "builds": done.load(Ordering::Relaxed), "mismatches": bad.load(Ordering::Relaxed), "note": "sampling of OS schedules, not part of the exhaustive claim"}));

    let total_states = n_states_a + n_states_b;
    col.set("states", json!(total_states));
    col.set("transitions", json!(transitions.load(Ordering::Relaxed) + rtrans.load(Ordering::Relaxed)));
    col.set("traces_validated_against_impl", json!(nseq + rcount as u64 + icount as u64 + st + fine_total));
    col
}
