//! C02 corruption corollary: bounded fault enumeration on the codewords of real symbols

use crate::pool;
use crate::refmodel as r;
use crate::report::{Collector, Ctx};
use crate::spaces::{content, Family};
use crate::subject::{self, Opts, Outcome};
use serde_json::json;
use std::sync::atomic::{AtomicU64, Ordering};

fn subsets(n: usize, k: usize, f: &mut dyn FnMut(&[usize])) {
    fn rec(n: usize, k: usize, start: usize, cur: &mut Vec<usize>, f: &mut dyn FnMut(&[usize])) {
        if cur.len() == k {
            f(cur);
            return;
        }
        for i in start..n {
            cur.push(i);
            rec(n, k, i + 1, cur, f);
            cur.pop();
        }
    }
    rec(n, k, 0, &mut vec![], f);
}

fn real_blocks(v: usize, e: usize) -> Result<(Vec<u8>, Vec<Vec<u8>>), String> {
    let input = content(Family::Ctr, 2, r::cap(v, e, 2));
    match subject::build(&input, &Opts { mode: Some(2), ecl: Some(e as u8), version: Some(v as u8), mask: None, order: 0 }) {
        Outcome::Ok(q) => {
            let d = r::decode_symbol(&subject::values(&q), q.size)?;
            Ok((input, d.blocks))
        }
        o => Err(format!("build v{} e{} returned {}", v, e, o.tag())),
    }
}

pub fn corruption(ctx: &Ctx, col: &Collector) {
    let t0 = std::time::Instant::now();
    let evals = AtomicU64::new(0);
    let viol0 = col.violation_count.load(Ordering::Relaxed);
    // ---- version 1, all four levels: every subset of <= t positions (caps in quick tier)
    let mut caps = vec![];
    for e in 0..4usize {
        let (input, blocks) = match real_blocks(1, e) {
            Ok(x) => x,
            Err(_) => {
                col.skipped_panic();
                continue;
            }
        };
        let block = blocks[0].clone();
        let ec = r::ECPB[e][1];
        if !r::syndromes_zero(&block, ec) {
            // reported by the main C02 sweep; the corollary presupposes a valid codeword
            continue;
        }
        let t = ec / 2;
        let maxk = if ctx.tier.thorough() { t } else { t.min(4) };
        if maxk < t {
            caps.push(format!("v1 level {}: subsets of up to {} of t={} corrupted codewords (quick tier cap)", e, maxk, t));
        }
        let n = block.len();
        let mut all: Vec<Vec<usize>> = vec![];
        for k in 1..=maxk {
            subsets(n, k, &mut |s| all.push(s.to_vec()));
        }
        pool::par_for(all.len(), |i| {
            let s = &all[i];
            let mut bad = block.clone();
            for (j, &p) in s.iter().enumerate() {
                bad[p] ^= ((1 + 37 * p + 11 * j + i) % 255 + 1) as u8;
            }
            evals.fetch_add(1, Ordering::Relaxed);
            col.digest(crate::util::fnv(&bad));
            match r::rs_decode(&bad, ec) {
                Some(c) if c == block => {}
                _ => col.violation(
                    (30 + e as u64, i as u64),
                    "C02/corruption-not-recovered".into(),
                    format!("v1 level {}: {} corrupted codewords at {:?} (t = {}) not recovered", e, s.len(), s, t),
                    json!({"kind": "corruption", "version": 1, "ecl": e, "positions": s, "input_hex": crate::util::hex(&input)}),
                ),
            }
        });
        // every single position with all 255 error values
        pool::par_for(n * 255, |i| {
            let (p, val) = (i / 255, (i % 255 + 1) as u8);
            let mut bad = block.clone();
            bad[p] ^= val;
            evals.fetch_add(1, Ordering::Relaxed);
            col.digest(crate::util::fnv(&bad));
            match r::rs_decode(&bad, ec) {
                Some(c) if c == block => {}
                _ => col.violation(
                    (34 + e as u64, i as u64),
                    "C02/corruption-not-recovered".into(),
                    format!("v1 level {}: single error {:#x} at {} not recovered", e, val, p),
                    json!({"kind": "corruption", "version": 1, "ecl": e, "positions": [p], "value": val}),
                ),
            }
        });
    }
    // ---- all other (v, level) pairs: structured patterns of t errors in every block
    let pairs: Vec<(usize, usize)> = (2..=40).flat_map(|v| (0..4).map(move |e| (v, e))).collect();
    pool::par_for(pairs.len(), |pi| {
        let (v, e) = pairs[pi];
        let (_, blocks) = match real_blocks(v, e) {
            Ok(x) => x,
            Err(_) => {
                col.skipped_panic();
                return;
            }
        };
        let ec = r::ECPB[e][v];
        let t = ec / 2;
        for (bi, block) in blocks.iter().enumerate() {
            if !r::syndromes_zero(block, ec) {
                continue;
            }
            let n = block.len();
            let step = (n + t - 1) / t;
            let patterns: [Vec<usize>; 3] = [
                (0..t).collect(),
                (n - t..n).collect(),
                (0..t).map(|i| (i * step).min(n - 1 - (t - 1 - i))).collect(),
            ];
            for (pj, pat) in patterns.iter().enumerate() {
                let mut set = pat.clone();
                set.sort();
                set.dedup();
                let mut bad = block.clone();
                for (j, &p) in set.iter().enumerate() {
                    bad[p] ^= ((1 + 37 * p + 11 * j) % 255 + 1) as u8;
                }
                evals.fetch_add(1, Ordering::Relaxed);
                col.digest(crate::util::fnv(&bad));
                match r::rs_decode(&bad, ec) {
                    Some(c) if &c == block => {}
                    _ => col.violation(
                        (40, (pi * 1000 + bi * 3 + pj) as u64),
                        "C02/corruption-not-recovered".into(),
                        format!("v{} level {} block {}: {} corrupted codewords (pattern {}) not recovered", v, e, bi, set.len(), pj),
                        json!({"kind": "corruption", "version": v, "ecl": e, "block": bi, "positions": set}),
                    ),
                }
            }
        }
    });
    let n = evals.load(Ordering::Relaxed);
    col.evals_add(n);
    for c in &caps {
        col.caps_hit.lock().unwrap().push(c.clone());
    }
    col.sample(json!({"space": "corruption", "example": "v1 level L block with codewords {0,1,2} corrupted by position-dependent non-zero values, decoded by R's Berlekamp-Massey decoder"}));
    col.space(json!({
        "name": "corruption corollary", "cases": n,
        "what": "v1 x 4 levels: every subset of <= t codeword positions (caps listed under caps_hit) + every single position x all 255 values; other 156 (v, level) pairs: {first t, last t, spread t} in every block",
        "exhaustive": caps.is_empty(), "caps": caps,
        "violations": col.violation_count.load(Ordering::Relaxed) - viol0,
        "wall_s": (t0.elapsed().as_secs_f64() * 100.0).round() / 100.0,
    }));
}
