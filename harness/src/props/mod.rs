pub mod basic;
pub mod c02x;
pub mod c07;
pub mod c08;
pub mod c11;
pub mod c12;
pub mod c13;
pub mod c14;
pub mod c16;
pub mod c17;
pub mod c18;
pub mod c19;
pub mod svgcheck;

use crate::report::{Collector, Ctx};

pub const ALL: [&str; 19] = [
    "C01", "C02", "C03", "C04", "C05", "C06", "C07", "C08", "C09", "C10", "C11", "C12", "C13", "C14", "C15", "C16", "C17", "C18", "C19",
];

pub fn run(ctx: &Ctx) -> Option<Collector> {
    Some(match ctx.prop.as_str() {
        "C01" => basic::c01(ctx),
        "C02" => basic::c02(ctx),
        "C03" => basic::c03(ctx),
        "C04" => basic::c04(ctx),
        "C05" => basic::c05(ctx),
        "C06" => basic::c06(ctx),
        "C07" => c07::run(ctx),
        "C08" => c08::run(ctx),
        "C09" => basic::c09(ctx),
        "C11" => c11::run(ctx),
        "C16" => c16::run(ctx),
        "C10" => basic::c10(ctx),
        "C12" => c12::run(ctx),
        "C13" => c13::run(ctx),
        "C14" => c14::run(ctx),
        "C15" => basic::c15(ctx),
        "C17" => c17::run(ctx),
        "C18" => c18::run(ctx),
        "C19" => c19::run(ctx),
        _ => return None,
    })
}

/// replay of case kinds that belong to one property only
pub fn replay_other(prop: &str, kind: &str, case: &serde_json::Value) -> Result<Vec<(String, String)>, String> {
    if kind == "wasm" || kind == "wasm-qr" {
        return c17::replay(case);
    }
    if kind == "build-history" || kind == "rebuild-history" {
        return crate::sweep::replay_history(prop, kind, case);
    }
    if kind == "history" || kind == "schedule" || kind == "tie-after" || kind == "first-use-order" || kind == "alias" {
        return c14::replay(case);
    }
    if kind == "schedule-fine" {
        // replayed by the instrumented binary (it runs the schedule twice itself)
        let dir = std::env::var("VERIF_DIR").unwrap_or_else(|_| "/verif".to_string());
        let bin = format!("{}/target-fine/release/fqv-fine", dir);
        let tmp = format!("{}/scratch/replay-fine-{}.json", dir, std::process::id());
        std::fs::write(&tmp, case.to_string()).map_err(|e| e.to_string())?;
        let out = std::process::Command::new(&bin).args(["replay", &tmp]).output().map_err(|e| format!("{}: {}", bin, e));
        let _ = std::fs::remove_file(&tmp);
        let out = out?;
        if out.status.code() == Some(2) || out.status.code().is_none() {
            return Err(format!("fqv-fine replay failed: {}", String::from_utf8_lossy(&out.stderr)));
        }
        let txt = String::from_utf8_lossy(&out.stdout).to_string();
        return Ok(txt.lines().filter(|l| l.starts_with("  C14/")).filter_map(|l| l.trim().split_once(": ").map(|(k, w)| (k.to_string(), w.to_string()))).collect());
    }
    if kind == "mask-grid" {
        return c08::replay(case);
    }
    if kind == "fault" {
        return c19::replay(case, &std::env::var("VERIF_DIR").unwrap_or_else(|_| "/verif".to_string()));
    }
    if kind == "raster" {
        return c13::replay(case);
    }
    if kind == "frame" {
        return c18::replay(case);
    }
    if kind.starts_with("svg-") {
        return c12::replay(case);
    }
    Err(format!("no single-case replay for kind '{}' of {}: re-run ./check {} (the sweep is deterministic and reports the same first case)", kind, prop, prop))
}
