//! The SVG oracle shared by C12, C14, C17, C18: an abstract model of SvgBuilder and the check of a
//! rendered document against (matrix, model).

use crate::parse::{svgpath, xml};
use fast_qr::convert::svg::SvgBuilder;
use fast_qr::convert::{Builder, ImageBackgroundShape, Shape};

pub const SHAPES: [Shape; 6] = [Shape::Square, Shape::Circle, Shape::RoundedSquare, Shape::Vertical, Shape::Horizontal, Shape::Diamond];
pub const SHAPE_NAMES: [&str; 6] = ["square", "circle", "rounded_square", "vertical", "horizontal", "diamond"];
pub const FRAMES: [ImageBackgroundShape; 3] = [ImageBackgroundShape::Square, ImageBackgroundShape::Circle, ImageBackgroundShape::RoundedSquare];

/// Abstract state of an SvgBuilder ("last setter wins; shape calls append a layer")
#[derive(Clone, Debug, PartialEq)]
pub struct SvgModel {
    pub layers: Vec<(usize, Option<[u8; 4]>)>,
    pub margin: usize,
    pub module_color: [u8; 4],
    pub background: [u8; 4],
    pub image: Option<String>,
    pub image_background: [u8; 4],
    pub frame: usize,
    pub image_size: Option<f64>,
    pub image_gap: Option<f64>,
    pub image_position: Option<(f64, f64)>,
}

impl Default for SvgModel {
    fn default() -> Self {
        SvgModel {
            layers: vec![],
            margin: 4,
            module_color: [0, 0, 0, 255],
            background: [255, 255, 255, 255],
            image: None,
            image_background: [255, 255, 255, 255],
            frame: 0,
            image_size: None,
            image_gap: None,
            image_position: None,
        }
    }
}

impl SvgModel {
    /// a fresh real builder configured with exactly this state (canonical setter order)
    pub fn to_builder(&self) -> SvgBuilder {
        let mut b = SvgBuilder::default();
        b.margin(self.margin);
        b.module_color(self.module_color);
        b.background_color(self.background);
        for (s, c) in &self.layers {
            match c {
                Some(c) => b.shape_color(SHAPES[*s], *c),
                None => b.shape(SHAPES[*s]),
            };
        }
        if let Some(i) = &self.image {
            b.image(i.clone());
        }
        b.image_background_color(self.image_background);
        b.image_background_shape(FRAMES[self.frame]);
        if let Some(s) = self.image_size {
            b.image_size(s);
        }
        if let Some(g) = self.image_gap {
            b.image_gap(g);
        }
        if let Some((x, y)) = self.image_position {
            b.image_position(x, y);
        }
        b
    }
    /// the same final state reached by calling the setters in the opposite order (layers keep their order)
    pub fn to_builder_rev(&self) -> SvgBuilder {
        let mut b = SvgBuilder::default();
        if let Some((x, y)) = self.image_position {
            b.image_position(x, y);
        }
        if let Some(g) = self.image_gap {
            b.image_gap(g);
        }
        if let Some(s) = self.image_size {
            b.image_size(s);
        }
        b.image_background_shape(FRAMES[self.frame]);
        b.image_background_color(self.image_background);
        if let Some(i) = &self.image {
            b.image(i.clone());
        }
        for (s, c) in &self.layers {
            match c {
                Some(c) => b.shape_color(SHAPES[*s], *c),
                None => b.shape(SHAPES[*s]),
            };
        }
        b.background_color(self.background);
        b.module_color(self.module_color);
        b.margin(self.margin);
        b
    }
    pub fn key(&self) -> String {
        format!("{:?}", self)
    }
}

/// C12's colour rule: #rrggbb, or #rrggbbaa when alpha < 255
pub fn hex(c: [u8; 4]) -> String {
    if c[3] == 255 {
        format!("#{:02x}{:02x}{:02x}", c[0], c[1], c[2])
    } else {
        format!("#{:02x}{:02x}{:02x}{:02x}", c[0], c[1], c[2], c[3])
    }
}

fn num_px(s: &str) -> Option<f64> {
    s.trim().trim_end_matches("px").trim().parse::<f64>().ok()
}

pub struct Parsed {
    pub root: xml::Element,
}

/// Structure + geometry check. `vals` row-major module values of the n x n symbol.
pub fn check_svg(doc: &str, vals: &[bool], n: usize, model: &SvgModel) -> (Vec<(String, String)>, Option<Parsed>) {
    let mut out: Vec<(String, String)> = vec![];
    let root = match xml::parse(doc) {
        Ok(r) => r,
        Err(e) => {
            let key = if model.image.is_some() { "not-well-formed-with-image" } else { "not-well-formed" };
            out.push((key.into(), format!("the SVG string is not well-formed XML: {}", e)));
            return (out, None);
        }
    };
    if root.name != "svg" {
        out.push(("root".into(), format!("root element is <{}>", root.name)));
        return (out, None);
    }
    let s = (n + 2 * model.margin) as f64;
    match root.attr("viewBox") {
        Some(vb) => {
            let nums: Vec<f64> = vb.split(|c: char| c == ' ' || c == ',').filter(|t| !t.is_empty()).filter_map(|t| t.parse().ok()).collect();
            if nums.len() != 4 || nums[0] != 0.0 || nums[1] != 0.0 || nums[2] != s || nums[3] != s {
                out.push(("viewbox".into(), format!("viewBox {:?}, expected a square of side size+2*margin = {}", vb, s)));
            }
        }
        None => out.push(("viewbox".into(), "no viewBox".into())),
    }
    // background: the first <rect> of the document, before any <path>, of side S in the background colour
    let first_path = root.children.iter().position(|c| c.name == "path").unwrap_or(root.children.len());
    match root.children.iter().take(first_path).find(|c| c.name == "rect") {
        Some(r) => {
            let w = r.attr("width").and_then(num_px);
            let h = r.attr("height").and_then(num_px);
            if w != Some(s) || h != Some(s) {
                out.push(("background-size".into(), format!("background rectangle is {:?} x {:?}, expected side {}", r.attr("width"), r.attr("height"), s)));
            }
            let x = r.attr("x").and_then(num_px).unwrap_or(0.0);
            let y = r.attr("y").and_then(num_px).unwrap_or(0.0);
            if x != 0.0 || y != 0.0 {
                out.push(("background-size".into(), format!("background rectangle is offset by ({}, {})", x, y)));
            }
            let want = hex(model.background);
            if !r.attr("fill").map_or(false, |f| f.eq_ignore_ascii_case(&want)) {
                out.push(("background-colour".into(), format!("background fill {:?}, expected {}", r.attr("fill"), want)));
            }
        }
        None => out.push(("background-missing".into(), "no background <rect> before the module paths".into())),
    }
    // layers
    let paths: Vec<&xml::Element> = root.children.iter().filter(|c| c.name == "path").collect();
    let layers: Vec<(usize, Option<[u8; 4]>)> = if model.layers.is_empty() { vec![(0, None)] } else { model.layers.clone() };
    if paths.len() != layers.len() {
        out.push(("layer-count".into(), format!("{} <path> elements for {} configured shape layer(s)", paths.len(), layers.len())));
    }
    for (li, (p, (shape, colour))) in paths.iter().zip(layers.iter()).enumerate() {
        let want = hex(colour.unwrap_or(model.module_color));
        if !p.attr("fill").map_or(false, |f| f.eq_ignore_ascii_case(&want)) {
            out.push(("layer-colour".into(), format!("layer {} ({}) fill {:?}, expected {}", li, SHAPE_NAMES[*shape], p.attr("fill"), want)));
        }
        let d = match p.attr("d") {
            Some(d) => d,
            None => {
                out.push(("layer-no-path-data".into(), format!("layer {} has no d attribute", li)));
                continue;
            }
        };
        let subs = match svgpath::subpaths(d) {
            Ok(s) => s,
            Err(e) => {
                out.push(("path-data".into(), format!("layer {} ({}): path data does not parse: {}", li, SHAPE_NAMES[*shape], e)));
                continue;
            }
        };
        let mut seen = vec![false; n * n];
        let m = model.margin as f64;
        let mut first_err: Option<(String, String)> = None;
        for sp in &subs {
            let (cx, cy) = sp.centre();
            let col = (cx - m).floor();
            let row = (cy - m).floor();
            let e = if col < 0.0 || row < 0.0 || col >= n as f64 || row >= n as f64 {
                Some(("subpath-in-quiet-zone", format!("sub-path centred at ({:.2}, {:.2}) lies outside the symbol (margin {})", cx, cy, model.margin)))
            } else {
                let (c, r) = (col as usize, row as usize);
                let (x0, y0) = (c as f64 + m, r as f64 + m);
                if !vals[r * n + c] {
                    Some(("subpath-on-light-module", format!("sub-path centred at ({:.2}, {:.2}) lies on the light module (row {}, col {})", cx, cy, r, c)))
                } else if seen[r * n + c] {
                    Some(("duplicate-subpath", format!("dark module (row {}, col {}) has more than one sub-path", r, c)))
                } else if sp.minx < x0 - 0.1 || sp.miny < y0 - 0.1 || sp.maxx > x0 + 1.1 || sp.maxy > y0 + 1.1 {
                    Some(("subpath-not-anchored", format!("sub-path of dark module (row {}, col {}) spans x {:.2}..{:.2}, y {:.2}..{:.2}: not inside the unit cell anchored at ({}, {})", r, c, sp.minx, sp.maxx, sp.miny, sp.maxy, x0, y0)))
                } else if sp.width() < 0.25 || sp.height() < 0.25 {
                    Some(("subpath-degenerate", format!("sub-path of dark module (row {}, col {}) is {:.2} x {:.2}: draws nothing visible", r, c, sp.width(), sp.height())))
                } else {
                    seen[r * n + c] = true;
                    None
                }
            };
            if let Some((k, w)) = e {
                if first_err.is_none() {
                    first_err = Some((k.to_string(), format!("layer {} ({}): {}", li, SHAPE_NAMES[*shape], w)));
                }
            }
        }
        if first_err.is_none() {
            if let Some(i) = (0..n * n).find(|&i| vals[i] && !seen[i]) {
                first_err = Some(("dark-module-without-subpath".into(), format!("layer {} ({}): dark module (row {}, col {}) has no sub-path ({} sub-paths for {} dark modules)", li, SHAPE_NAMES[*shape], i / n, i % n, subs.len(), vals.iter().filter(|&&b| b).count())));
            }
        }
        if let Some(e) = first_err {
            out.push(e);
        }
    }
    // image
    fn count<'a>(e: &'a xml::Element, name: &str, acc: &mut Vec<&'a xml::Element>) {
        for c in &e.children {
            if c.name == name {
                acc.push(c);
            }
            count(c, name, acc);
        }
    }
    let mut images = vec![];
    count(&root, "image", &mut images);
    match &model.image {
        None => {
            if !images.is_empty() {
                out.push(("unexpected-image".into(), format!("{} <image> element(s) although no image was configured", images.len())));
            }
        }
        Some(s) => {
            if images.len() != 1 {
                out.push(("image-count".into(), format!("{} <image> elements, expected exactly one", images.len())));
            } else {
                let href = images[0].attr("href").or_else(|| images[0].attr("xlink:href"));
                if href != Some(s.as_str()) {
                    out.push(("image-href".into(), format!("<image> href decodes to {:?}, expected the configured string {:?}", href, s)));
                }
            }
        }
    }
    (out, Some(Parsed { root }))
}
