//! C08: masking applies exactly the Table 10 pattern, only to the encoding region

use crate::pool;
use crate::refmodel as r;
use crate::refmodel::Reg;
use crate::report::{Collector, Ctx};
use crate::spaces::{content, Family};
use crate::subject::{self, Opts, Outcome};
use serde_json::json;

struct Base {
    v: usize,
    e: usize,
    m: usize,
    input: Vec<u8>,
    what: String,
}

fn bases(thorough: bool) -> Vec<Base> {
    let mut out = vec![];
    for v in 1..=40usize {
        for e in 0..4usize {
            let fams: &[Family] = if thorough { &[Family::Ctr, Family::Lo, Family::Hi] } else { &[Family::Ctr, Family::Lo] };
            for &f in fams {
                let modes: &[usize] = if thorough { &[0, 1, 2] } else { &[2] };
                for &m in modes {
                    let cap = r::cap(v, e, m);
                    let lens: Vec<usize> = if thorough { vec![cap, cap / 2, 1] } else { vec![cap] };
                    for len in lens {
                        out.push(Base { v, e, m, input: content(f, m, len), what: format!("{} len {}", f.name(), len) });
                    }
                }
            }
        }
    }
    out
}

/// The crate's public masking entry point applied to an all-data grid of side n (what the crate's own mask tests do
/// on a 10x10 grid), followed on the same thread by the forced-mask build of that version: the grid must show exactly
/// Table 10 pattern k at every coordinate, and the build must be what R encodes (a use of the entry point on another
/// matrix of the same size leaves nothing behind).
pub fn check_grid(v: usize, k: usize) -> Vec<(String, String)> {
    let mut out = vec![];
    let n = r::side(v);
    let res = subject::guarded(|| {
        let mut grid = fast_qr::QRCode::default(n);
        fast_qr::datamasking::mask(&mut grid, subject::MASKS[k]);
        grid
    });
    let grid = match res {
        Ok(g) => g,
        Err(m) => {
            out.push(("grid-panic".into(), format!("datamasking::mask on an all-data grid of side {} panicked: {}", n, m)));
            return out;
        }
    };
    'g: for y in 0..n {
        for x in 0..n {
            if grid.data[y * n + x].value() != r::maskbit(k, y, x) {
                out.push(("grid-pattern".into(), format!("mask {} on an all-data grid of side {}: module (row {}, col {}) is {} but Table 10 condition {} is {}", k, n, y, x, grid.data[y * n + x].value(), k, r::maskbit(k, y, x))));
                break 'g;
            }
        }
    }
    if let Some(p) = (n * n..grid.data.len()).find(|&i| grid.data[i].value()) {
        out.push(("grid-outside".into(), format!("mask {} on an all-data grid of side {}: storage index {} beyond the square was set", k, n, p)));
    }
    let input = content(Family::Ctr, 2, r::cap(v, 1, 2));
    let o = Opts { mode: Some(2), ecl: Some(1), version: Some(v as u8), mask: Some(k as u8), order: 0 };
    match subject::build(&input, &o) {
        Outcome::Ok(q) => {
            if subject::values(&q) != r::encode_symbol(&input, 2, 1, v, k) {
                out.push(("build-after-grid-use".into(), format!("v{} forced mask {}: the build that follows a use of datamasking::mask on an all-data grid of the same side differs from the reference symbol", v, k)));
            }
        }
        other => out.push(("build-after-grid-use".into(), format!("v{} forced mask {}: the build that follows a use of datamasking::mask on an all-data grid returned {}", v, k, other.tag()))),
    }
    out
}

pub fn replay(case: &serde_json::Value) -> Result<Vec<(String, String)>, String> {
    let v = case.get("version").and_then(|x| x.as_u64()).ok_or("version")? as usize;
    let k = case.get("mask").and_then(|x| x.as_u64()).ok_or("mask")? as usize;
    Ok(check_grid(v, k).into_iter().map(|(k, w)| (format!("C08/{}", k), w)).collect())
}

pub fn run(ctx: &Ctx) -> Collector {
    let col = Collector::new("C08", "exploration");
    col.set_rule("cases = for each of the 160 (version, level) pairs and payload families {ctr, all-zero} at byte capacity (thorough: 3 families x 3 modes x 3 lengths): the 8 forced-mask builds plus the automatic-mask build; oracle at EVERY coordinate of every size: builds a and 0 differ on data/EC/remainder modules exactly where Table 10 conditions a and 0 disagree (literal formulas), all function-pattern modules (incl. version information) are identical, only format modules may differ otherwise, and un-masking each symbol with the mask NAMED IN ITS OWN FORMAT INFORMATION gives one and the same matrix for all builds (this implies all 28 pairs); plus S_grid: the public masking entry point on an all-data grid of every side x 8 masks shows Table 10 pattern k at every coordinate and the build that follows on the same thread is the reference symbol; non-trivial = a symbol was returned; distinct = distinct symbol matrices");
    col.assume("encoding region = R's computed region map (data/EC/remainder modules)");
    let bs = bases(ctx.tier.thorough());
    pool::par_for(bs.len(), |bi| {
        let b = &bs[bi];
        let g = r::geo_of(b.v);
        let n = g.n;
        let mk = |k: Option<u8>| Opts { mode: Some(b.m as u8), ecl: Some(b.e as u8), version: Some(b.v as u8), mask: k, order: 0 };
        let mut syms: Vec<(Option<u8>, Vec<bool>, usize)> = vec![]; // (forced mask, values, mask named in format info)
        for k in (0..8u8).map(Some).chain(std::iter::once(None)) {
            let o = mk(k);
            match subject::build(&b.input, &o) {
                Outcome::Ok(q) => {
                    col.eval(Some(crate::core::obs_digest(&q)));
                    if q.size != n {
                        col.violation((0, bi as u64), "C08/size".into(), format!("forced v{} returned side {}", b.v, q.size), subject::case_json(&b.input, &o));
                        return;
                    }
                    let vals = subject::values(&q);
                    let (c1, _) = r::fmt_coords(n);
                    let named = match r::nearest_format(r::read_word(&vals, n, &c1)) {
                        Some((_, kk, _)) => kk,
                        None => {
                            col.violation((0, bi as u64), "C08/format-undecodable".into(), format!("v{} level {} forced mask {:?}: format information names no mask", b.v, b.e, k), subject::case_json(&b.input, &o));
                            return;
                        }
                    };
                    if let Some(fk) = k {
                        if named != fk as usize {
                            col.violation((0, bi as u64), "C08/named-mask-differs-from-forced".into(), format!("v{} level {}: forced mask {} but format information names {}", b.v, b.e, fk, named), subject::case_json(&b.input, &o));
                        }
                    }
                    syms.push((k, vals, named));
                }
                _ => {
                    col.eval(None);
                    col.skipped_panic();
                    return;
                }
            }
        }
        // (1) pairwise differences against the forced-mask-0 build, by the FORCED mask numbers
        let (_, ref v0, _) = syms[0];
        for (k, vals, _) in syms.iter().skip(1) {
            let k = match k {
                Some(k) => *k as usize,
                None => continue,
            };
            for y in 0..n {
                for x in 0..n {
                    let i = y * n + x;
                    let diff = vals[i] != v0[i];
                    let bad = match g.reg[i] {
                        Reg::Data => diff != (r::maskbit(k, y, x) != r::maskbit(0, y, x)),
                        Reg::Format => false,
                        _ => diff,
                    };
                    if bad {
                        let key = if g.reg[i] == Reg::Data { "C08/data-module-difference" } else { "C08/function-module-changed" };
                        col.violation(
                            (0, bi as u64),
                            key.into(),
                            format!("v{} level {} ({}): builds with forced masks {} and 0 {} at (row {}, col {}) in region {:?}; Table 10 says the masks {} there", b.v, b.e, b.what, k, if diff { "differ" } else { "agree" }, y, x, g.reg[i], if r::maskbit(k, y, x) != r::maskbit(0, y, x) { "disagree" } else { "agree" }),
                            json!({"kind": "mask-pair", "input_hex": crate::util::hex(&b.input), "mode": b.m, "ecl": b.e, "version": b.v, "mask_a": k, "mask_b": 0, "row": y, "col": x}),
                        );
                        return;
                    }
                }
            }
        }
        // (2) un-masking with the mask named in the format information: same matrix for all 9 builds
        let unmask = |vals: &Vec<bool>, named: usize| -> Vec<bool> {
            let mut u = vals.clone();
            for y in 0..n {
                for x in 0..n {
                    let i = y * n + x;
                    match g.reg[i] {
                        Reg::Data => u[i] ^= r::maskbit(named, y, x),
                        Reg::Format => u[i] = false,
                        _ => {}
                    }
                }
            }
            u
        };
        let u0 = unmask(&syms[0].1, syms[0].2);
        for (k, vals, named) in syms.iter().skip(1) {
            let u = unmask(vals, *named);
            if u != u0 {
                let p = u.iter().zip(u0.iter()).position(|(a, b)| a != b).unwrap();
                col.violation(
                    (1, bi as u64),
                    "C08/unmasked-matrices-differ".into(),
                    format!("v{} level {} ({}): un-masking the build with forced mask {:?} (format names {}) differs from un-masking the mask-0 build at (row {}, col {})", b.v, b.e, b.what, k, named, p / n, p % n),
                    json!({"kind": "mask-unmask", "input_hex": crate::util::hex(&b.input), "mode": b.m, "ecl": b.e, "version": b.v, "mask": k}),
                );
                return;
            }
        }
    });
    // the masking entry point on all-data grids of all 40 sides x 8 masks, each followed by a build on the same thread
    pool::par_for(40, |vi| {
        for k in 0..8usize {
            col.eval(Some(crate::util::fnv(format!("grid{}-{}", vi + 1, k).as_bytes())));
            for (key, w) in check_grid(vi + 1, k) {
                col.violation((2, (vi * 8 + k) as u64), format!("C08/{}", key), w, json!({"kind": "mask-grid", "version": vi + 1, "mask": k}));
            }
        }
    });
    col.space(json!({"name": "S_grid", "cases": 320, "what": "datamasking::mask (public entry point) on an all-data grid of each of the 40 sides x 8 masks: Table 10 pattern at every coordinate, nothing outside the square; then the forced-mask build of that version on the same thread equals the reference symbol", "exhaustive": true}));
    col.space(json!({"name": "S_mask", "cases": bs.len() * 9, "bases": bs.len(), "what": "160 (version, level) x payload bases x (8 forced masks + automatic); all coordinates of all 40 sizes compared under every mask", "exhaustive": true}));
    col.sample(json!({"space": "S_mask", "version": bs[0].v, "ecl": bs[0].e, "mode": bs[0].m, "payload": bs[0].what, "builds": "forced masks 0..7 + automatic"}));
    col.sample(json!({"space": "S_mask", "version": bs[bs.len() - 1].v, "ecl": bs[bs.len() - 1].e, "mode": bs[bs.len() - 1].m, "payload": bs[bs.len() - 1].what, "builds": "forced masks 0..7 + automatic"}));
    col
}
