//! C08: masking applies exactly the Table 10 pattern, only to the encoding region

use crate::pool;
use crate::refmodel as r;
use crate::refmodel::Reg;
use crate::report::{Collector, Ctx};
use crate::spaces::{content, Family};
use crate::subject::{self, Opts, Outcome};
use serde_json::json;

struct Base {
    v: usize,
    e: usize,
    m: usize,
    input: Vec<u8>,
    what: String,
}

fn bases(thorough: bool) -> Vec<Base> {
    let mut out = vec![];
    for v in 1..=40usize {
        for e in 0..4usize {
            let fams: &[Family] = if thorough { &[Family::Ctr, Family::Lo, Family::Hi] } else { &[Family::Ctr, Family::Lo] };
            for &f in fams {
                let modes: &[usize] = if thorough { &[0, 1, 2] } else { &[2] };
                for &m in modes {
                    let cap = r::cap(v, e, m);
                    let lens: Vec<usize> = if thorough { vec![cap, cap / 2, 1] } else { vec![cap] };
                    for len in lens {
                        out.push(Base { v, e, m, input: content(f, m, len), what: format!("{} len {}", f.name(), len) });
                    }
                }
            }
        }
    }
    out
}

/// The crate's public masking entry point applied to an all-data grid of side n (what the crate's own mask tests do
/// on a 10x10 grid), followed on the same thread by the forced-mask build of that version: the grid must show exactly
/// Table 10 pattern k at every coordinate, and the build must be what R encodes (a use of the entry point on another
/// matrix of the same size leaves nothing behind).
pub fn check_grid(v: usize, k: usize) -> Vec<(String, String)> {
    let mut out = vec![];
    let n = r::side(v);
    let res = subject::guarded(|| {
        let mut grid = fast_qr::QRCode::default(n);
        fast_qr::datamasking::mask(&mut grid, subject::MASKS[k]);
        grid
    });
    let grid = match res {
        Ok(g) => g,
        Err(m) => {
            out.push(("grid-panic".into(), format!("datamasking::mask on an all-data grid of side {} panicked: {}", n, m)));
            return out;
        }
    };
    'g: for y in 0..n {
        for x in 0..n {
            if grid.data[y * n + x].value() != r::maskbit(k, y, x) {
                out.push(("grid-pattern".into(), format!("mask {} on an all-data grid of side {}: module (row {}, col {}) is {} but Table 10 condition {} is {}", k, n, y, x, grid.data[y * n + x].value(), k, r::maskbit(k, y, x))));
                break 'g;
            }
        }
    }
    if let Some(p) = (n * n..grid.data.len()).find(|&i| grid.data[i].value()) {
        out.push(("grid-outside".into(), format!("mask {} on an all-data grid of side {}: storage index {} beyond the square was set", k, n, p)));
    }
    let input = content(Family::Ctr, 2, r::cap(v, 1, 2));
    let o = Opts { mode: Some(2), ecl: Some(1), version: Some(v as u8), mask: Some(k as u8), order: 0 };
    match subject::build(&input, &o) {
        Outcome::Ok(q) => {
            if subject::values(&q) != r::encode_symbol(&input, 2, 1, v, k) {
                out.push(("build-after-grid-use".into(), format!("v{} forced mask {}: the build that follows a use of datamasking::mask on an all-data grid of the same side differs from the reference symbol", v, k)));
            }
        }
        other => out.push(("build-after-grid-use".into(), format!("v{} forced mask {}: the build that follows a use of datamasking::mask on an all-data grid returned {}", v, k, other.tag()))),
    }
    out
}

/// child process: the first symbol this process ever builds has version `first`; then S_grid for every (version, mask).
/// Output: one line "FINDING <version> <mask> <key>\t<what>" per finding, "DONE <count>" at the end.
pub fn child_main(args: &[String]) -> i32 {
    let first: usize = match args.first().and_then(|a| a.parse().ok()) {
        Some(f) if (1..=40).contains(&f) => f,
        _ => return 2,
    };
    let only: Option<(usize, usize)> = match (args.get(1).and_then(|a| a.parse().ok()), args.get(2).and_then(|a| a.parse().ok())) {
        (Some(v), Some(k)) => Some((v, k)),
        _ => None,
    };
    let input = content(Family::Ctr, 2, r::cap(first, 1, 2));
    let _ = subject::build(&input, &Opts { mode: Some(2), ecl: Some(1), version: Some(first as u8), mask: None, order: 0 });
    let mut n = 0;
    for v in 1..=40usize {
        for k in 0..8usize {
            if only.map_or(false, |o| o != (v, k)) {
                continue;
            }
            n += 1;
            for (key, w) in check_grid(v, k) {
                println!("FINDING {} {} {}\t{}", v, k, key, w.replace('\n', " "));
            }
        }
    }
    println!("DONE {}", n);
    0
}

fn run_first_child(first: usize, only: Option<(usize, usize)>) -> Result<Vec<(usize, usize, String, String)>, String> {
    let exe = std::env::current_exe().map_err(|e| e.to_string())?;
    let mut cmd = std::process::Command::new(exe);
    cmd.arg("c08-child").arg(first.to_string());
    if let Some((v, k)) = only {
        cmd.arg(v.to_string()).arg(k.to_string());
    }
    let out = cmd.stderr(std::process::Stdio::null()).output().map_err(|e| e.to_string())?;
    let txt = String::from_utf8_lossy(&out.stdout).to_string();
    if !out.status.success() || !txt.lines().any(|l| l.starts_with("DONE ")) {
        return Err(format!("child with first version {} did not finish: {:?}", first, out.status));
    }
    let mut f = vec![];
    for l in txt.lines().filter(|l| l.starts_with("FINDING ")) {
        let mut it = l[8..].splitn(3, ' ');
        let v: usize = it.next().and_then(|x| x.parse().ok()).unwrap_or(0);
        let k: usize = it.next().and_then(|x| x.parse().ok()).unwrap_or(0);
        let rest = it.next().unwrap_or("");
        let (key, what) = rest.split_once('\t').unwrap_or((rest, ""));
        f.push((v, k, key.to_string(), what.to_string()));
    }
    Ok(f)
}

pub fn replay(case: &serde_json::Value) -> Result<Vec<(String, String)>, String> {
    let v = case.get("version").and_then(|x| x.as_u64()).ok_or("version")? as usize;
    let k = case.get("mask").and_then(|x| x.as_u64()).ok_or("mask")? as usize;
    if let Some(first) = case.get("first_version").and_then(|x| x.as_u64()) {
        return Ok(run_first_child(first as usize, Some((v, k)))?.into_iter().map(|(_, _, key, w)| (format!("C08/{}", key), w)).collect());
    }
    Ok(check_grid(v, k).into_iter().map(|(k, w)| (format!("C08/{}", k), w)).collect())
}

pub fn run(ctx: &Ctx) -> Collector {
    let col = Collector::new("C08", "exploration");
    col.set_rule("cases = for each of the 160 (version, level) pairs and payload families {ctr, all-zero} at byte capacity (thorough: 3 families x 3 modes x 3 lengths): the 8 forced-mask builds plus the automatic-mask build; oracle at EVERY coordinate of every size: builds a and 0 differ on data/EC/remainder modules exactly where Table 10 conditions a and 0 disagree (literal formulas), all function-pattern modules (incl. version information) are identical, only format modules may differ otherwise, and un-masking each symbol with the mask NAMED IN ITS OWN FORMAT INFORMATION gives one and the same matrix for all builds (this implies all 28 pairs); plus S_grid: the public masking entry point on an all-data grid of every side x 8 masks shows Table 10 pattern k at every coordinate and the build that follows on the same thread is the reference symbol, in this process and in 4 fresh processes whose first symbol is version 2, 3, 6 or 40; non-trivial = a symbol was returned; distinct = distinct symbol matrices");
    col.assume("encoding region = R's computed region map (data/EC/remainder modules)");
    let bs = bases(ctx.tier.thorough());
    pool::par_for(bs.len(), |bi| {
        let b = &bs[bi];
        let g = r::geo_of(b.v);
        let n = g.n;
        let mk = |k: Option<u8>| Opts { mode: Some(b.m as u8), ecl: Some(b.e as u8), version: Some(b.v as u8), mask: k, order: 0 };
        let mut syms: Vec<(Option<u8>, Vec<bool>, usize)> = vec![]; // (forced mask, values, mask named in format info)
        for k in (0..8u8).map(Some).chain(std::iter::once(None)) {
            let o = mk(k);
            match subject::build(&b.input, &o) {
                Outcome::Ok(q) => {
                    col.eval(Some(crate::core::obs_digest(&q)));
                    if q.size != n {
                        col.violation((0, bi as u64), "C08/size".into(), format!("forced v{} returned side {}", b.v, q.size), subject::case_json(&b.input, &o));
                        return;
                    }
                    let vals = subject::values(&q);
                    let (c1, _) = r::fmt_coords(n);
                    let named = match r::nearest_format(r::read_word(&vals, n, &c1)) {
                        Some((_, kk, _)) => kk,
                        None => {
                            col.violation((0, bi as u64), "C08/format-undecodable".into(), format!("v{} level {} forced mask {:?}: format information names no mask", b.v, b.e, k), subject::case_json(&b.input, &o));
                            return;
                        }
                    };
                    if let Some(fk) = k {
                        if named != fk as usize {
                            col.violation((0, bi as u64), "C08/named-mask-differs-from-forced".into(), format!("v{} level {}: forced mask {} but format information names {}", b.v, b.e, fk, named), subject::case_json(&b.input, &o));
                        }
                    }
                    syms.push((k, vals, named));
                }
                _ => {
                    col.eval(None);
                    col.skipped_panic();
                    return;
                }
            }
        }
        // (1) pairwise differences against the forced-mask-0 build, by the FORCED mask numbers
        let (_, ref v0, _) = syms[0];
        for (k, vals, _) in syms.iter().skip(1) {
            let k = match k {
                Some(k) => *k as usize,
                None => continue,
            };
            for y in 0..n {
                for x in 0..n {
                    let i = y * n + x;
                    let diff = vals[i] != v0[i];
                    let bad = match g.reg[i] {
                        Reg::Data => diff != (r::maskbit(k, y, x) != r::maskbit(0, y, x)),
                        Reg::Format => false,
                        _ => diff,
                    };
                    if bad {
                        let key = if g.reg[i] == Reg::Data { "C08/data-module-difference" } else { "C08/function-module-changed" };
                        col.violation(
                            (0, bi as u64),
                            key.into(),
                            format!("v{} level {} ({}): builds with forced masks {} and 0 {} at (row {}, col {}) in region {:?}; Table 10 says the masks {} there", b.v, b.e, b.what, k, if diff { "differ" } else { "agree" }, y, x, g.reg[i], if r::maskbit(k, y, x) != r::maskbit(0, y, x) { "disagree" } else { "agree" }),
                            json!({"kind": "mask-pair", "input_hex": crate::util::hex(&b.input), "mode": b.m, "ecl": b.e, "version": b.v, "mask_a": k, "mask_b": 0, "row": y, "col": x}),
                        );
                        return;
                    }
                }
            }
        }
        // (2) un-masking with the mask named in the format information: same matrix for all 9 builds
        let unmask = |vals: &Vec<bool>, named: usize| -> Vec<bool> {
            let mut u = vals.clone();
            for y in 0..n {
                for x in 0..n {
                    let i = y * n + x;
                    match g.reg[i] {
                        Reg::Data => u[i] ^= r::maskbit(named, y, x),
                        Reg::Format => u[i] = false,
                        _ => {}
                    }
                }
            }
            u
        };
        let u0 = unmask(&syms[0].1, syms[0].2);
        for (k, vals, named) in syms.iter().skip(1) {
            let u = unmask(vals, *named);
            if u != u0 {
                let p = u.iter().zip(u0.iter()).position(|(a, b)| a != b).unwrap();
                col.violation(
                    (1, bi as u64),
                    "C08/unmasked-matrices-differ".into(),
                    format!("v{} level {} ({}): un-masking the build with forced mask {:?} (format names {}) differs from un-masking the mask-0 build at (row {}, col {})", b.v, b.e, b.what, k, named, p / n, p % n),
                    json!({"kind": "mask-unmask", "input_hex": crate::util::hex(&b.input), "mode": b.m, "ecl": b.e, "version": b.v, "mask": k}),
                );
                return;
            }
        }
    });
    // the masking entry point on all-data grids of all 40 sides x 8 masks, each followed by a build on the same thread
    pool::par_for(40, |vi| {
        for k in 0..8usize {
            col.eval(Some(crate::util::fnv(format!("grid{}-{}", vi + 1, k).as_bytes())));
            for (key, w) in check_grid(vi + 1, k) {
                col.violation((2, (vi * 8 + k) as u64), format!("C08/{}", key), w, json!({"kind": "mask-grid", "version": vi + 1, "mask": k}));
            }
        }
    });
    // the same in fresh processes whose first symbol is of another size (whatever the masking code builds once and keeps
    // must not depend on what it was first used for)
    let firsts = [2usize, 3, 6, 40];
    for &first in &firsts {
        match run_first_child(first, None) {
            Ok(f) => {
                col.eval(Some(crate::util::fnv(format!("first{}", first).as_bytes())));
                for (v, k, key, w) in f {
                    col.violation((3, (first * 1000 + v * 8 + k) as u64), format!("C08/{}-after-first-use", key), format!("in a process whose first symbol was version {}: {}", first, w), json!({"kind": "mask-grid", "first_version": first, "version": v, "mask": k}));
                }
            }
            Err(e) => col.machinery_error(e),
        }
    }
    col.space(json!({"name": "S_grid after another first use", "cases": firsts.len() * 320, "what": "S_grid in 4 fresh child processes whose first symbol built is version 2, 3, 6 and 40", "exhaustive": true}));
    col.space(json!({"name": "S_grid", "cases": 320, "what": "datamasking::mask (public entry point) on an all-data grid of each of the 40 sides x 8 masks: Table 10 pattern at every coordinate, nothing outside the square; then the forced-mask build of that version on the same thread equals the reference symbol", "exhaustive": true}));
    col.space(json!({"name": "S_mask", "cases": bs.len() * 9, "bases": bs.len(), "what": "160 (version, level) x payload bases x (8 forced masks + automatic); all coordinates of all 40 sizes compared under every mask", "exhaustive": true}));
    col.sample(json!({"space": "S_mask", "version": bs[0].v, "ecl": bs[0].e, "mode": bs[0].m, "payload": bs[0].what, "builds": "forced masks 0..7 + automatic"}));
    col.sample(json!({"space": "S_mask", "version": bs[bs.len() - 1].v, "ecl": bs[bs.len() - 1].e, "mode": bs[bs.len() - 1].m, "payload": bs[bs.len() - 1].what, "builds": "forced masks 0..7 + automatic"}));
    col
}
