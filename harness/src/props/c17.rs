//! C17: the WASM entry points (compiled for the host through hook H4) equal the native API and
//! never panic. E2: breadth-first search over option-setter programs, de-duplicated on the
//! implementation's own Debug state; every (state, operation) transition is executed.

use crate::parse::xml;
use crate::pool;
use crate::props::svgcheck::{SHAPES, FRAMES};
use crate::report::{Collector, Ctx};
use crate::subject::{self, ECLS, VERSIONS};
use fast_qr::convert::svg::SvgBuilder;
use fast_qr::convert::Builder;
use fast_qr::wasm_host::{qr, qr_svg, SvgOptions};
use fast_qr::QRBuilder;
use serde_json::{json, Value};
use std::collections::HashMap;
use std::sync::atomic::{AtomicU64, Ordering};
use std::sync::Mutex;

#[derive(Clone, Debug, PartialEq)]
pub enum Op {
    Shape(usize),
    Margin(usize),
    Ecl(usize),
    Version(usize),
    Image(String),
    Frame(usize),
    ImageSize(f64, f64),
    ImagePosition(Vec<f64>),
    ModuleColor(String),
    Background(String),
    ImageBackground(String),
}

impl Op {
    fn apply(&self, o: SvgOptions) -> SvgOptions {
        match self {
            Op::Shape(s) => o.shape(SHAPES[*s]),
            Op::Margin(m) => o.margin(*m),
            Op::Ecl(e) => o.ecl(ECLS[*e]),
            Op::Version(v) => o.version(VERSIONS[*v - 1]),
            Op::Image(s) => o.image(s.clone()),
            Op::Frame(f) => o.image_background_shape(FRAMES[*f]),
            Op::ImageSize(s, g) => o.image_size(*s, *g),
            Op::ImagePosition(p) => o.image_position(p.clone()),
            Op::ModuleColor(s) => o.module_color(s.clone()),
            Op::Background(s) => o.background_color(s.clone()),
            Op::ImageBackground(s) => o.image_background_color(s.clone()),
        }
    }
    pub fn to_json(&self) -> Value {
        match self {
            Op::Shape(s) => json!({"op": "shape", "v": s}),
            Op::Margin(s) => json!({"op": "margin", "v": s}),
            Op::Ecl(s) => json!({"op": "ecl", "v": s}),
            Op::Version(s) => json!({"op": "version", "v": s}),
            Op::Image(s) => json!({"op": "image", "v": s}),
            Op::Frame(s) => json!({"op": "image_background_shape", "v": s}),
            Op::ImageSize(a, b) => json!({"op": "image_size", "v": [a, b]}),
            Op::ImagePosition(p) => json!({"op": "image_position", "v": p}),
            Op::ModuleColor(s) => json!({"op": "module_color", "v": s}),
            Op::Background(s) => json!({"op": "background_color", "v": s}),
            Op::ImageBackground(s) => json!({"op": "image_background_color", "v": s}),
        }
    }
    pub fn from_json(j: &Value) -> Option<Op> {
        let v = j.get("v")?;
        let us = || v.as_u64().map(|x| x as usize);
        let st = || v.as_str().map(|s| s.to_string());
        // JSON has no NaN: a null entry stands for it
        let fl = || v.as_array().map(|a| a.iter().filter_map(|x| if x.is_null() { Some(f64::NAN) } else { x.as_f64() }).collect::<Vec<f64>>());
        Some(match j.get("op")?.as_str()? {
            "shape" => Op::Shape(us()?),
            "margin" => Op::Margin(us()?),
            "ecl" => Op::Ecl(us()?),
            "version" => Op::Version(us()?),
            "image" => Op::Image(st()?),
            "image_background_shape" => Op::Frame(us()?),
            "image_size" => {
                let a = fl()?;
                Op::ImageSize(*a.first()?, *a.get(1)?)
            }
            "image_position" => Op::ImagePosition(fl()?),
            "module_color" => Op::ModuleColor(st()?),
            "background_color" => Op::Background(st()?),
            "image_background_color" => Op::ImageBackground(st()?),
            _ => return None,
        })
    }
}

pub const COLOUR_STRINGS: [&str; 18] = [
    "#000000", "#ff0000", "#12ab34cd", "00ff00", "#102030FF", "#10203000", // well-formed (the last two: alpha given as fully opaque / fully transparent)
    "", "#", "red", "#fff", "#12345", "#1234567", "#gg0000", "#\u{e9}00000", "\u{e9}", "+f+f+f", "#0000000000", " 000000",
];

pub fn alphabet() -> Vec<Op> {
    let mut a = vec![];
    for s in 0..6 {
        a.push(Op::Shape(s));
    }
    for m in [0usize, 4, 9] {
        a.push(Op::Margin(m));
    }
    for e in 0..4 {
        a.push(Op::Ecl(e));
    }
    for v in [1usize, 5, 40] {
        a.push(Op::Version(v));
    }
    // the last one holds a literal entity: it is a string like any other (an export that un-escapes or double-escapes it
    // differs from the native builder given the same string)
    for s in ["", "x.png", "data:image/png;base64,iVBORw0KGgo=", "https://example.com/l.png?a=1&b=2", "l.png?w=64&amp;h=64&lt;"] {
        a.push(Op::Image(s.to_string()));
    }
    for f in 0..3 {
        a.push(Op::Frame(f));
    }
    // (9.1, 0.3) and [12.3, 7.7]: values that are not exactly representable in single precision
    for (s, g) in [(5.0, 1.0), (0.0, 0.0), (7.5, 0.25), (9.1, 0.3)] {
        a.push(Op::ImageSize(s, g));
    }
    // [NaN, 5]: what a JS caller's `undefined` becomes; it is a pair, and the native builder given the same pair prints it
    for p in [vec![], vec![3.0], vec![3.0, 4.0], vec![1.0, 2.0, 3.0], vec![12.3, 7.7], vec![f64::NAN, 5.0]] {
        a.push(Op::ImagePosition(p));
    }
    for s in COLOUR_STRINGS {
        a.push(Op::ModuleColor(s.to_string()));
        a.push(Op::Background(s.to_string()));
        a.push(Op::ImageBackground(s.to_string()));
    }
    a
}

/// the abstract option state
#[derive(Clone, Debug, PartialEq)]
pub struct Model {
    shape: usize,
    margin: usize,
    ecl: Option<usize>,
    version: Option<usize>,
    image: String,
    frame: usize,
    size: Option<(f64, f64)>,
    position: Option<(f64, f64)>,
    module_color: [u8; 4],
    background: [u8; 4],
    image_background: [u8; 4],
}

impl Default for Model {
    fn default() -> Self {
        Model { shape: 0, margin: 4, ecl: None, version: None, image: String::new(), frame: 0, size: None, position: None, module_color: [0, 0, 0, 255], background: [255; 4], image_background: [255; 4] }
    }
}

/// `#?RRGGBB[AA]`
pub fn parse_wellformed(s: &str) -> Option<[u8; 4]> {
    let h = s.strip_prefix('#').unwrap_or(s);
    if !(h.len() == 6 || h.len() == 8) || !h.bytes().all(|c| c.is_ascii_hexdigit()) {
        return None;
    }
    let b = |i: usize| u8::from_str_radix(&h[2 * i..2 * i + 2], 16).unwrap();
    Some([b(0), b(1), b(2), if h.len() == 8 { b(3) } else { 255 }])
}

fn parse_hex_colour(s: &str) -> Option<[u8; 4]> {
    if !s.starts_with('#') {
        return None;
    }
    parse_wellformed(s)
}

impl Model {
    /// what the native API produces for this state
    pub fn native_svg(&self, content: &str) -> Result<String, String> {
        subject::guarded(|| {
            let mut b = QRBuilder::new(content.as_bytes().to_vec());
            if let Some(e) = self.ecl {
                b.ecl(ECLS[e]);
            }
            if let Some(v) = self.version {
                b.version(VERSIONS[v - 1]);
            }
            match b.build() {
                Err(_) => String::new(),
                Ok(q) => {
                    let mut s = SvgBuilder::default();
                    s.shape(SHAPES[self.shape]);
                    s.margin(self.margin);
                    s.background_color(self.background);
                    s.module_color(self.module_color);
                    if !self.image.is_empty() {
                        s.image(self.image.clone());
                    }
                    s.image_background_color(self.image_background);
                    s.image_background_shape(FRAMES[self.frame]);
                    if let Some((sz, gap)) = self.size {
                        s.image_size(sz);
                        s.image_gap(gap);
                    }
                    if let Some((x, y)) = self.position {
                        s.image_position(x, y);
                    }
                    s.to_str(&q)
                }
            }
        })
    }
}

/// reads the three colours the implementation currently holds, black-box, from two probe renders
fn observe_colours(o: &SvgOptions) -> Result<([u8; 4], [u8; 4], [u8; 4]), String> {
    let doc = subject::guarded(|| qr_svg("1", o.clone().version(VERSIONS[0]).ecl(ECLS[0]).image("probe.png".to_string()))).map_err(|m| format!("probe render panicked: {}", m))?;
    if doc.is_empty() {
        return Err("probe render returned the empty string".into());
    }
    let root = xml::parse(&doc).map_err(|e| format!("probe render not well-formed: {}", e))?;
    let bg = root.children.iter().find(|c| c.name == "rect").and_then(|r| r.attr("fill")).and_then(parse_hex_colour).ok_or("probe: background fill is not a #rrggbb[aa] colour")?;
    let mc = root.children.iter().find(|c| c.name == "path").and_then(|p| p.attr("fill")).and_then(parse_hex_colour).ok_or("probe: module fill is not a #rrggbb[aa] colour")?;
    let ib = root.children.iter().filter(|c| c.name == "rect").skip(1).last().and_then(|r| r.attr("fill")).and_then(parse_hex_colour).ok_or("probe: image background fill is not a #rrggbb[aa] colour")?;
    Ok((mc, bg, ib))
}

/// applies `op` to (real, model); returns the findings of this transition
fn step_fn(real: &SvgOptions, model: &Model, op: &Op) -> (Option<SvgOptions>, Model, Vec<(String, String)>) {
    let mut f = vec![];
    crate::report::case_begin(&format!("setter {} on {:?}", op.to_json(), real));
    let applied = subject::guarded(|| op.apply(real.clone()));
    crate::report::case_end();
    let next = match applied {
        Ok(n) => n,
        Err(msg) => {
            let key = match op {
                Op::ModuleColor(_) | Op::Background(_) | Op::ImageBackground(_) => "setter-panic-colour",
                _ => "setter-panic",
            };
            f.push((key.to_string(), format!("option setter {} panicked: {}", op.to_json(), msg)));
            return (None, model.clone(), f);
        }
    };
    let mut m = model.clone();
    match op {
        Op::Shape(s) => m.shape = *s,
        Op::Margin(x) => m.margin = *x,
        Op::Ecl(e) => m.ecl = Some(*e),
        Op::Version(v) => m.version = Some(*v),
        Op::Image(s) => m.image = s.clone(),
        Op::Frame(x) => m.frame = *x,
        Op::ImageSize(s, g) => m.size = Some((*s, *g)),
        Op::ImagePosition(p) => {
            if p.len() == 2 {
                m.position = Some((p[0], p[1]));
            } else {
                // an array that is not [x, y] has no native counterpart: the call may be ignored, or may take the
                // first two entries (like a malformed colour it must not trap and must leave a state the native API
                // can express). The candidate that reproduces the export is adopted; none = violation.
                let mut cands: Vec<Option<(f64, f64)>> = vec![model.position];
                if p.len() > 2 {
                    cands.push(Some((p[0], p[1])));
                    cands.push(Some((p[p.len() - 2], p[p.len() - 1])));
                }
                let probe = next.clone().image("probe.png".to_string());
                let got = subject::guarded(|| qr_svg("1", probe));
                let mut adopted = None;
                if let Ok(got) = &got {
                    for c in &cands {
                        let mut pm = Model { position: *c, ..m.clone() };
                        pm.image = "probe.png".to_string();
                        if pm.native_svg("1").ok().as_ref() == Some(got) {
                            adopted = Some(*c);
                            break;
                        }
                    }
                }
                match (got, adopted) {
                    (Err(msg), _) => f.push(("qr_svg-panic".to_string(), format!("after {}: qr_svg panicked: {}", op.to_json(), msg))),
                    (Ok(_), Some(c)) => m.position = c,
                    (Ok(_), None) => f.push(("position-state-invalid".to_string(), format!("after {} (an array that is not [x, y]) the export matches neither the previous position nor the first / last two entries", op.to_json()))),
                }
            }
        }
        Op::ModuleColor(s) | Op::Background(s) | Op::ImageBackground(s) => {
            // observe what the implementation holds now
            match observe_colours(&next) {
                Err(e) => {
                    let key = if e.contains("panicked") || e.contains("panic") { "svg-panic-after-colour" } else { "colour-state-invalid" };
                    f.push((key.to_string(), format!("after {}: {}", op.to_json(), e)));
                    return (None, m, f);
                }
                Ok((mc, bg, ib)) => {
                    let (slot, seen, name): (&mut [u8; 4], [u8; 4], &str) = match op {
                        Op::ModuleColor(_) => (&mut m.module_color, mc, "module colour"),
                        Op::Background(_) => (&mut m.background, bg, "background colour"),
                        _ => (&mut m.image_background, ib, "image background colour"),
                    };
                    match parse_wellformed(s) {
                        Some(want) => {
                            if seen != want {
                                f.push(("colour-not-set".into(), format!("{} {:?} is well-formed (#RRGGBB[AA]) but the {} rendered is {:?}, expected {:?}", op.to_json(), s, name, seen, want)));
                            }
                            *slot = want;
                        }
                        // malformed: the call is ignored, or whatever valid colour the implementation derived is adopted
                        None => *slot = seen,
                    }
                    // the other two colours must not move
                    let others = [(m.module_color, mc, "module colour"), (m.background, bg, "background colour"), (m.image_background, ib, "image background colour")];
                    for (have, seen, n2) in others {
                        if have != seen {
                            f.push(("colour-crosstalk".into(), format!("after {}: {} rendered {:?} but the model holds {:?}", op.to_json(), n2, seen, have)));
                        }
                    }
                }
            }
        }
    }
    (Some(next), m, f)
}

pub const SMALL_CONTENTS: [&str; 5] = ["", "0123456789", "HELLO WORLD", "hello, world!", "h\u{e9}llo w\u{f6}rld \u{2713}"];

fn big_contents() -> Vec<String> {
    // level-Q byte capacity of version 40 is 1663 bytes; alphanumeric 2420; numeric 3993
    vec!["a".repeat(1663), "a".repeat(1664), "A".repeat(2420), "A".repeat(2421), "7".repeat(3993), "7".repeat(3994), "x".repeat(8000)]
}

fn compare_svg(real: &SvgOptions, model: &Model, content: &str) -> Vec<(String, String)> {
    crate::report::case_begin(&format!("qr_svg content_len={} content_head={:?} options={:?}", content.len(), &content.chars().take(24).collect::<String>(), real));
    let got = subject::guarded(|| qr_svg(content, real.clone()));
    let want = model.native_svg(content);
    crate::report::case_end();
    match (got, want) {
        (Err(msg), _) => {
            let key = if model.size.is_some() && model.position.is_none() { "qr_svg-panic-size-without-position" } else { "qr_svg-panic" };
            vec![(key.into(), format!("qr_svg panicked for content of {} bytes: {}", content.len(), msg))]
        }
        (Ok(_), Err(msg)) => vec![("native-panic".into(), format!("the native builder panicked for the model state: {}", msg))],
        (Ok(g), Ok(w)) => {
            if g == w {
                vec![]
            } else {
                let p = g.bytes().zip(w.bytes()).position(|(a, b)| a != b).unwrap_or(g.len().min(w.len()));
                let lo = p.saturating_sub(40);
                let key = if g.is_empty() {
                    "empty-for-encodable-content"
                } else if w.is_empty() {
                    "svg-for-unencodable-content"
                } else if model.position.is_some() && model.size.is_none() {
                    "svg-differs-position-without-size"
                } else {
                    "svg-differs-from-native"
                };
                vec![(key.into(), format!("qr_svg differs from the native SVG for content of {} bytes at byte {}: wasm ...{:?} native ...{:?}", content.len(), p, g.get(lo..(p + 40).min(g.len())).unwrap_or(""), w.get(lo..(p + 40).min(w.len())).unwrap_or("")))]
            }
        }
    }
}

fn compare_qr(content: &str) -> Vec<(String, String)> {
    crate::report::case_begin(&format!("qr content_len={} content_head={:?}", content.len(), &content.chars().take(24).collect::<String>()));
    let got = subject::guarded(|| qr(content));
    crate::report::case_end();
    let want: Result<Vec<u8>, String> = subject::guarded(|| match QRBuilder::new(content.as_bytes().to_vec()).build() {
        Ok(q) => q.data[..q.size * q.size].iter().map(|m| u8::from(m.value())).collect(),
        Err(_) => vec![],
    });
    match (got, want) {
        (Err(m), _) => vec![("qr-panic".into(), format!("qr() panicked for content of {} bytes: {}", content.len(), m))],
        (_, Err(m)) => vec![("native-panic".into(), format!("native build panicked: {}", m))],
        (Ok(g), Ok(w)) => {
            if g != w {
                vec![("qr-differs".into(), format!("qr() returned {} bytes, native default build gives {} bytes (first difference at {:?})", g.len(), w.len(), g.iter().zip(w.iter()).position(|(a, b)| a != b)))]
            } else if g.iter().any(|&b| b > 1) {
                vec![("qr-not-binary".into(), "qr() returned a byte other than 0/1".into())]
            } else {
                vec![]
            }
        }
    }
}

pub fn case_json(path: &[Op], content: Option<&str>) -> Value {
    json!({"kind": "wasm", "path": path.iter().map(|o| o.to_json()).collect::<Vec<_>>(), "content": content, "content_len": content.map(|c| c.len())})
}

pub fn replay(case: &Value) -> Result<Vec<(String, String)>, String> {
    let kind = case.get("kind").and_then(|k| k.as_str()).unwrap_or("");
    if kind == "wasm-qr" {
        let c = case.get("content").and_then(|c| c.as_str()).ok_or("content")?;
        return Ok(compare_qr(c).into_iter().map(|(k, w)| (format!("C17/{}", k), w)).collect());
    }
    let path: Vec<Op> = case.get("path").and_then(|p| p.as_array()).ok_or("no path")?.iter().map(Op::from_json).collect::<Option<Vec<_>>>().ok_or("bad op")?;
    let mut real = subject::guarded(SvgOptions::new)?;
    let mut model = Model::default();
    let mut out = vec![];
    for op in &path {
        let (n, m, f) = step_fn(&real, &model, op);
        out.extend(f);
        model = m;
        match n {
            Some(n) => real = n,
            None => return Ok(out.into_iter().map(|(k, w)| (format!("C17/{}", k), w)).collect()),
        }
    }
    if let Some(c) = case.get("content").and_then(|c| c.as_str()) {
        out.extend(compare_svg(&real, &model, c));
    }
    Ok(out.into_iter().map(|(k, w)| (format!("C17/{}", k), w)).collect())
}

pub fn run(ctx: &Ctx) -> Collector {
    let col = Collector::new("C17", "model_checking");
    col.set_rule("E2: breadth-first search over SvgOptions setter programs to depth D (quick 3, thorough 4) from SvgOptions::new(), 88-operation alphabet {shape x6, margin x3, ecl x4, version x3, image x5 (one holding literal entities), image_background_shape x3, image_size x4, image_position x6 (lengths 0,1,2,3; one pair with a NaN entry), three colour setters x 18 strings (6 well-formed incl. an explicit opaque and an explicit transparent alpha, 12 malformed)}; states de-duplicated on the implementation's own Debug string; EVERY (state, operation) transition is executed on the real object (setters may panic); in every distinct state qr_svg is compared with the native SvgBuilder configured from the abstract model for 5 small contents (empty, digits, alphanumeric, bytes, multi-byte UTF-8), and in all states of depth <= 1 also for the level-Q capacity edges +-1 of the three modes and an 8000-character content; qr() compared with the native default build on those contents and every length around the capacity edges; depth 1: all 3905 strings of length <= 5 over {# 0 f g e-acute} through each colour setter; oracle: no call panics; well-formed colour strings (#?RRGGBB[AA]) take effect, malformed ones are ignored or leave a valid colour; outputs byte-identical to native; non-trivial = a document or matrix was returned; distinct = distinct returned strings/arrays");
    col.assume("hook H4 compiles src/wasm.rs unchanged for the host (64-bit usize); the real wasm32 target is not executed");
    col.assume("colours held by the option object are observed black-box by rendering a probe document; the Debug string is used only as an opaque de-duplication key");
    let thorough = ctx.tier.thorough();
    let depth = if thorough { 4 } else { 3 };
    let alpha = alphabet();
    let root = match subject::guarded(SvgOptions::new) {
        Ok(r) => r,
        Err(m) => {
            col.violation((0, 0), "C17/new-panic".into(), format!("SvgOptions::new panicked: {}", m), case_json(&[], None));
            return col;
        }
    };
    let t0 = std::time::Instant::now();
    // frontier entries: (real object, model, path)
    let mut frontier: Vec<(SvgOptions, Model, Vec<Op>)> = vec![(root.clone(), Model::default(), vec![])];
    // real state (Debug string) -> the model of the first program that reached it
    let seen: Mutex<HashMap<String, Model>> = Mutex::new(HashMap::new());
    seen.lock().unwrap().insert(format!("{:?}", root), Model::default());
    let seen_pairs: Mutex<std::collections::HashSet<String>> = Mutex::new(std::collections::HashSet::new());
    let conflations = AtomicU64::new(0);
    let transitions = AtomicU64::new(0);
    let svg_calls = AtomicU64::new(0);
    let big = big_contents();
    let mut states_total = 1u64;
    for d in 0..=depth {
        // evaluate qr_svg in every state of this level
        pool::par_for(frontier.len(), |i| {
            let (real, model, path) = &frontier[i];
            let mut contents: Vec<&str> = SMALL_CONTENTS.to_vec();
            if d <= 1 {
                contents.extend(big.iter().map(|s| s.as_str()));
            }
            for c in contents {
                svg_calls.fetch_add(1, Ordering::Relaxed);
                let f = compare_svg(real, model, c);
                let digest = subject::guarded(|| qr_svg(c, real.clone())).ok().filter(|s| !s.is_empty()).map(|s| crate::util::fnv(s.as_bytes()));
                col.eval(digest);
                for (k, w) in f {
                    col.violation((d as u64, i as u64), format!("C17/{}", k), format!("after {} setter call(s): {}", path.len(), w), case_json(path, Some(c)));
                }
            }
        });
        if d == depth {
            break;
        }
        // expand: every (state, op) transition
        let next: Mutex<Vec<(SvgOptions, Model, Vec<Op>)>> = Mutex::new(vec![]);
        pool::par_for(frontier.len(), |i| {
            let (real, model, path) = &frontier[i];
            for (oi, op) in alpha.iter().enumerate() {
                transitions.fetch_add(1, Ordering::Relaxed);
                let (n, m, f) = step_fn(real, model, op);
                let mut p2 = path.clone();
                p2.push(op.clone());
                for (k, w) in f {
                    col.violation((d as u64, (i * 100 + oi) as u64), format!("C17/{}", k), w, case_json(&p2, None));
                }
                if let Some(n) = n {
                    // a state of the search is the pair (implementation state, model state): if the implementation
                    // merges two option histories that the model tells apart, both stay in the frontier (a later
                    // call may make the difference visible: geometry cleared by image("") shows when an image is
                    // set again)
                    let pair_key = format!("{:?}|{:?}", n, m);
                    if !seen_pairs.lock().unwrap().insert(pair_key) {
                        continue;
                    }
                    let key = format!("{:?}", n);
                    let first = {
                        let mut g = seen.lock().unwrap();
                        match g.get(&key) {
                            Some(first) => Some(first.clone()),
                            None => {
                                g.insert(key, m.clone());
                                None
                            }
                        }
                    };
                    match first {
                        None => next.lock().unwrap().push((n, m, p2)),
                        // the implementation is in a state already reached by another program. If the model tells the
                        // two programs apart, the implementation has merged two option histories that the native API
                        // distinguishes: the export is judged against THIS program's model too, wherever the two
                        // models render differently (de-duplication must not hide a path-dependent divergence)
                        Some(first) if first != m => {
                            next.lock().unwrap().push((n.clone(), m.clone(), p2.clone()));
                            for c in SMALL_CONTENTS {
                                if first.native_svg(c) != m.native_svg(c) {
                                    conflations.fetch_add(1, Ordering::Relaxed);
                                    for (k, w) in compare_svg(&n, &m, c) {
                                        col.violation((d as u64, (i * 100 + oi) as u64), format!("C17/{}", k), format!("after {} setter call(s) (a state also reached by a program with different final options): {}", p2.len(), w), case_json(&p2, Some(c)));
                                    }
                                }
                            }
                        }
                        Some(_) => {}
                    }
                }
            }
        });
        let mut nx = next.into_inner().unwrap();
        // deterministic order regardless of worker interleaving
        nx.sort_by(|a, b| format!("{:?}", a.2).cmp(&format!("{:?}", b.2)));
        states_total += nx.len() as u64;
        frontier = nx;
    }
    col.set("states", json!(states_total));
    col.set("transitions", json!(transitions.load(Ordering::Relaxed)));
    col.set("traces_validated_against_impl", json!(transitions.load(Ordering::Relaxed)));
    col.set("qr_svg_comparisons", json!(svg_calls.load(Ordering::Relaxed)));
    col.set("merged_state_rechecks", json!(conflations.load(Ordering::Relaxed)));
    col.set("search_depth_completed", json!(depth));
    col.space(json!({"name": "E2 option programs", "cases": svg_calls.load(Ordering::Relaxed), "states": states_total, "transitions": transitions.load(Ordering::Relaxed), "depth": depth, "alphabet": alpha.len(), "what": "BFS de-duplicated on the implementation's Debug state; every transition executed on the real object; qr_svg vs native in every state", "exhaustive": true, "wall_s": (t0.elapsed().as_secs_f64() * 100.0).round() / 100.0}));
    col.sample(case_json(&[alpha[1].clone(), alpha[20].clone(), alpha[27].clone()], Some("HELLO WORLD")));
    col.sample(case_json(&[Op::ImageSize(5.0, 1.0)], Some("")));

    // ---- entry-point call histories: all sequences of up to 3 (thorough 4) entry-point calls executed
    // back to back on ONE thread; every result is compared with the native result for that call alone
    // (the facade must not carry anything over from one call to the next)
    {
        let t1 = std::time::Instant::now();
        let c1 = "HELLO WORLD";
        let c2 = "hello, world! 0123456789";
        // cannot be encoded at the default level (byte capacity of 40-Q is 1663): the error path inside a history
        let c3: &'static str = Box::leak("z".repeat(1700).into_boxed_str());
        #[derive(Clone)]
        enum Call {
            Qr(&'static str),
            Svg(&'static str, Vec<Op>),
        }
        let calls: Vec<Call> = vec![
            Call::Qr(c1),
            Call::Qr(c2),
            Call::Svg(c1, vec![]),
            Call::Svg(c1, vec![Op::Version(5)]),
            Call::Svg(c1, vec![Op::Version(40)]),
            Call::Svg(c1, vec![Op::Ecl(3)]),
            Call::Svg(c1, vec![Op::Ecl(2)]),
            Call::Svg(c2, vec![]),
            Call::Svg(c2, vec![Op::Version(5), Op::Margin(0)]),
            Call::Svg(c1, vec![Op::Shape(1), Op::ModuleColor("#ff0000".into())]),
            Call::Qr(c3),
            Call::Svg(c3, vec![]),
        ];
        let hd = if thorough { 4 } else { 3 };
        let total = calls.len().pow(hd as u32);
        let ncalls = AtomicU64::new(0);
        pool::par_for(total, |idx| {
            let mut seq = vec![];
            let mut x = idx;
            for _ in 0..hd {
                seq.push(x % calls.len());
                x /= calls.len();
            }
            seq.reverse();
            // one fresh thread per history, so that per-thread state starts empty and the history is exact
            let calls = calls.clone();
            let seq2 = seq.clone();
            let res = std::thread::Builder::new().stack_size(16 << 20).spawn(move || {
                crate::subject::install_panic_hook();
                let mut findings: Vec<(String, String, Value)> = vec![];
                for (step, &ci) in seq2.iter().enumerate() {
                    let f = match &calls[ci] {
                        Call::Qr(c) => compare_qr(c).into_iter().map(|(k, w)| (k, w, json!({"kind": "wasm-qr", "content": c}))).collect::<Vec<_>>(),
                        Call::Svg(c, path) => {
                            let mut real = SvgOptions::new();
                            let mut model = Model::default();
                            for op in path {
                                let (n, m, _) = step_fn(&real, &model, op);
                                model = m;
                                if let Some(n) = n {
                                    real = n;
                                }
                            }
                            compare_svg(&real, &model, c).into_iter().map(|(k, w)| (k, w, case_json(path, Some(c)))).collect::<Vec<_>>()
                        }
                    };
                    for (k, w, case) in f {
                        findings.push((format!("history-{}", k), format!("call {} of the entry-point history {:?}: {}", step, seq2, w), case));
                    }
                }
                findings
            });
            ncalls.fetch_add(hd as u64, Ordering::Relaxed);
            col.eval(Some(crate::util::fnv(format!("h{:?}", seq).as_bytes())));
            match res.map(|h| h.join()) {
                Ok(Ok(f)) => {
                    for (k, w, case) in f {
                        col.violation((15, idx as u64), format!("C17/{}", k), w, json!({"kind": "wasm-history", "sequence": seq, "failing_call": case}));
                    }
                }
                _ => col.violation((15, idx as u64), "C17/history-panic".into(), format!("entry-point history {:?} panicked outside catch_unwind", seq), json!({"kind": "wasm-history", "sequence": seq})),
            }
        });
        col.space(json!({"name": "entry-point call histories", "cases": total, "calls": ncalls.load(Ordering::Relaxed), "depth": hd, "alphabet": calls.len(), "what": "all sequences of entry-point calls {qr(c1), qr(c2), qr_svg(c1|c2, 8 option sets incl. forced versions 5/40 and levels)} of exactly that depth, each history on its own fresh thread, every call compared with the native result", "exhaustive": true, "wall_s": (t1.elapsed().as_secs_f64() * 100.0).round() / 100.0}));
    }

    // ---- all short strings over {# 0 f g é} through each colour setter (depth 1)
    let al = ['#', '0', 'f', 'g', '\u{e9}'];
    let mut strings: Vec<String> = vec![String::new()];
    let mut level: Vec<String> = vec![String::new()];
    for _ in 0..5 {
        let mut nl = vec![];
        for s in &level {
            for c in al {
                let mut t = s.clone();
                t.push(c);
                nl.push(t);
            }
        }
        strings.extend(nl.iter().cloned());
        level = nl;
    }
    // k valid hex pairs (k = 0..5) followed by a tail that is not a pair of hex digits, with and without '#'
    let n_short = strings.len();
    for hash in ["#", ""] {
        for k in 0..=5usize {
            for tail in ["", "z", "zz", "0", " ", "\u{e9}", "0z", "z0", "zz00", " !important", ";}", ", 00ff00"] {
                strings.push(format!("{}{}{}", hash, ["a1", "0b", "c2", "7f", "e0"][..k].concat(), tail));
            }
        }
    }
    let n_tails = strings.len() - n_short;
    let model0 = Model::default();
    pool::par_for(strings.len(), |i| {
        for which in 0..3 {
            let op = match which {
                0 => Op::ModuleColor(strings[i].clone()),
                1 => Op::Background(strings[i].clone()),
                _ => Op::ImageBackground(strings[i].clone()),
            };
            let (n, m, f) = step_fn(&root, &model0, &op);
            col.eval(Some(crate::util::fnv(format!("{:?}{:?}", m, which).as_bytes())));
            let mut all = f;
            if let Some(n) = n {
                all.extend(compare_svg(&n, &m, "HELLO"));
            }
            for (k, w) in all {
                col.violation((20, (i * 3 + which) as u64), format!("C17/{}", k), w, case_json(&[op.clone()], Some("HELLO")));
            }
        }
    });
    col.space(json!({"name": "short colour strings", "cases": strings.len() * 3, "what": format!("all {} strings of length <= 5 over {{# 0 f g e-acute}} and {} strings of 0..5 valid hex pairs followed by 12 kinds of tail, with and without #, through module_color, background_color, image_background_color, then qr_svg vs native", n_short, n_tails), "exhaustive": true}));

    // ---- qr(): contents and every length around the level-Q capacity edges
    let mut qc: Vec<String> = SMALL_CONTENTS.iter().map(|s| s.to_string()).collect();
    qc.extend(big.iter().cloned());
    for (ch, edge) in [("a", 1663usize), ("A", 2420), ("7", 3993)] {
        for len in edge - 3..=edge + 3 {
            qc.push(ch.repeat(len));
        }
    }
    for v in 1..=40usize {
        for (m, ch) in [(2usize, "a"), (1, "A"), (0, "7")] {
            let c = crate::refmodel::cap(v, 2, m);
            qc.push(ch.repeat(c));
            qc.push(ch.repeat(c + 1));
        }
    }
    pool::par_for(qc.len(), |i| {
        let f = compare_qr(&qc[i]);
        col.eval(subject::guarded(|| qr(&qc[i])).ok().filter(|v| !v.is_empty()).map(|v| crate::util::fnv(&v)));
        for (k, w) in f {
            col.violation((30, i as u64), format!("C17/{}", k), w, json!({"kind": "wasm-qr", "content": qc[i], "content_len": qc[i].len()}));
        }
    });
    col.space(json!({"name": "qr()", "cases": qc.len(), "what": "small contents, 8000 characters, every length within 3 of the v40 level-Q capacity edge of each mode, and capacity / capacity+1 of every version at level Q in each mode", "exhaustive": true}));
    col
}
