//! C07: EC codewords are the true GF(256) remainder (hook H1: division, generator accessor, structure)

use crate::pool;
use crate::refmodel as r;
use crate::report::{Collector, Ctx};
use crate::subject::{self, ECLS, VERSIONS};
use fast_qr::verif;
use serde_json::json;
use std::collections::BTreeMap;
use std::sync::atomic::{AtomicU64, Ordering};

/// remainder as the crate's division routine lays it out: the last `ec` bytes of the 255-byte buffer
fn subject_remainder(data: &[u8], gen_alpha: &[u8]) -> Result<Vec<u8>, String> {
    let ec = gen_alpha.len() - 1;
    subject::guarded(|| {
        let out = verif::division(data, gen_alpha);
        out[256 - gen_alpha.len()..256 - gen_alpha.len() + ec].to_vec()
    })
}

fn viol(col: &Collector, order: (u64, u64), key: &str, what: String, case: serde_json::Value) {
    col.violation(order, format!("C07/{}", key), what, case);
}

pub fn run(ctx: &Ctx) -> Collector {
    let col = Collector::new("C07", "exploration");
    col.set_rule("cases = (a) generator accessor for all 160 (version, level): degree = Table 9 ec and every coefficient alpha^exp = coefficient of prod(x - alpha^i) computed by polynomial multiplication; (b) S_basis through the hooked division routine: for each of the 98 block shapes (data length, ec) in use: zero block, EVERY single-nonzero-byte block (255 values x every position), every pair of positions with two fixed non-zero values (additivity), dense blocks (ctr, 0xFF, leading/interior/trailing zeros), compared with R's schoolbook remainder over a bitwise-defined GF(256); (c) the hooked interleaver for all 160 layouts with structured data, per-block EC compared; (d) public-API tie-in: single-bit payloads at full capacity in byte mode (v1-v4), EC codewords read back from the symbol; non-trivial = block has at least one non-zero byte; distinct = distinct (shape, block content)");
    col.assume("A-LIN: the EC map is a composition of table look-ups and XORs whose only data-dependent branch is the skip-zero test; it is enumerated exhaustively on the single-nonzero-byte basis and on all position pairs; an implementation that is non-linear only on >= 3 interacting bytes would escape");
    col.assume("hook H1 (fast_qr::verif::{division, get_polynomial, structure}) forwards to the crate-private routines unchanged");
    let thorough = ctx.tier.thorough();

    // ---- (a) generators for all 160 pairs
    let mut shapes: BTreeMap<(usize, usize), (usize, usize)> = BTreeMap::new(); // (dl, ec) -> (v, e)
    let mut gens: BTreeMap<usize, Vec<u8>> = BTreeMap::new(); // ec -> alpha form as returned
    let mut n_a = 0u64;
    for v in 1..=40usize {
        for e in 0..4usize {
            n_a += 1;
            let ec = r::ECPB[e][v];
            let g = match subject::guarded(|| verif::get_polynomial(VERSIONS[v - 1], ECLS[e]).to_vec()) {
                Ok(g) => g,
                Err(msg) => {
                    viol(&col, (0, (v * 4 + e) as u64), "generator-panic", format!("get_polynomial(v{}, level {}) panicked: {}", v, e, msg), json!({"kind": "generator", "version": v, "ecl": e}));
                    continue;
                }
            };
            col.eval(Some(crate::util::fnv(&g) ^ ((v * 4 + e) as u64)));
            if g.len() != ec + 1 {
                viol(&col, (0, (v * 4 + e) as u64), "generator-degree", format!("generator for v{} level {} has degree {}, Table 9 prescribes {}", v, e, g.len() as i64 - 1, ec), json!({"kind": "generator", "version": v, "ecl": e}));
                continue;
            }
            let want = r::generator(ec);
            let got: Vec<u8> = g.iter().map(|&x| r::alpha(x as usize)).collect();
            if got != want {
                let p = got.iter().zip(want.iter()).position(|(a, b)| a != b);
                viol(&col, (0, (v * 4 + e) as u64), "generator-coefficient", format!("generator for v{} level {} (degree {}) differs from prod(x - alpha^i) at coefficient {:?}", v, e, ec, p), json!({"kind": "generator", "version": v, "ecl": e}));
                continue;
            }
            gens.entry(ec).or_insert(g);
            let (short, sl, long) = r::block_layout(v, e);
            if short > 0 {
                shapes.entry((sl, ec)).or_insert((v, e));
            }
            if long > 0 {
                shapes.entry((sl + 1, ec)).or_insert((v, e));
            }
        }
    }
    col.space(json!({"name": "generators", "cases": n_a, "what": "all 160 (version, level): degree and every coefficient", "exhaustive": true, "distinct_degrees": gens.len()}));
    col.sample(json!({"space": "generators", "version": 1, "ecl": "L", "alpha_exponents": gens.get(&7)}));

    // ---- (b) S_basis through the hooked division routine
    let shape_list: Vec<((usize, usize), (usize, usize))> = shapes.iter().map(|(k, v)| (*k, *v)).collect();
    let n_b = AtomicU64::new(0);
    let t0 = std::time::Instant::now();
    pool::par_for(shape_list.len(), |si| {
        let ((dl, ec), _) = shape_list[si];
        let ga = match gens.get(&ec) {
            Some(g) => g.clone(),
            None => return, // generator already reported
        };
        let g = r::generator(ec);
        let mut local = 0u64;
        let mut local_digests: Vec<u64> = Vec::new();
        let mut first_bad: Option<(Vec<u8>, String)> = None;
        let mut check = |data: &[u8], tag: &str| {
            local += 1;
            if data.iter().any(|&b| b != 0) {
                local_digests.push(crate::util::Fnv::new().add_u64(((dl as u64) << 8) | ec as u64).add(data).get());
            }
            let want = r::rs_remainder_with(data, &g);
            match subject_remainder(data, &ga) {
                Ok(got) if got == want => {}
                Ok(_) => {
                    if first_bad.is_none() {
                        first_bad = Some((data.to_vec(), format!("{}: remainder differs", tag)));
                    }
                }
                Err(msg) => {
                    if first_bad.is_none() {
                        first_bad = Some((data.to_vec(), format!("{}: division panicked: {}", tag, msg)));
                    }
                }
            }
        };
        let zero = vec![0u8; dl];
        check(&zero, "zero block");
        // every single-nonzero-byte block
        for p in 0..dl {
            for val in 1..=255u8 {
                let mut d = zero.clone();
                d[p] = val;
                check(&d, "single non-zero byte");
            }
        }
        // all position pairs, two fixed non-zero values (thorough: two value pairs)
        let pairs: &[(u8, u8)] = if thorough { &[(0x53, 0xCA), (0x01, 0xFF)] } else { &[(0x53, 0xCA)] };
        for &(a, b) in pairs {
            for p in 0..dl {
                for q in p + 1..dl {
                    let mut d = zero.clone();
                    d[p] = a;
                    d[q] = b;
                    check(&d, "two non-zero bytes");
                }
            }
        }
        // dense blocks
        let ctr: Vec<u8> = (0..dl).map(|i| ((i * 29 + dl + ec) % 256) as u8).collect();
        check(&ctr, "dense ctr");
        check(&vec![0xFF; dl], "all 0xFF");
        check(&(0..dl).map(|i| [0xEC, 0x11][i % 2]).collect::<Vec<u8>>(), "pad bytes");
        for z in 1..dl.min(12) {
            let mut d = ctr.clone();
            for x in d.iter_mut().take(z) {
                *x = 0;
            }
            check(&d, "leading zeros");
            let mut d = ctr.clone();
            for x in d.iter_mut().skip(dl / 2).take(z) {
                *x = 0;
            }
            check(&d, "interior zeros");
            let mut d = ctr.clone();
            let l = d.len();
            for x in d.iter_mut().skip(l - z) {
                *x = 0;
            }
            check(&d, "trailing zeros");
        }
        // a dense block whose running remainder hits zero mid-way: data = multiple of g(x) followed by ctr
        if dl > ec + 2 {
            let mut d = vec![0u8; dl];
            for (i, &c) in g.iter().enumerate() {
                d[i] = c;
            }
            for i in ec + 1..dl {
                d[i] = ctr[i];
            }
            check(&d, "running remainder returns to zero");
        }
        n_b.fetch_add(local, Ordering::Relaxed);
        col.digests.lock().unwrap().extend(local_digests);
        if let Some((data, why)) = first_bad {
            viol(&col, (1, si as u64), "remainder", format!("block shape (data {}, ec {}): {}", dl, ec, why), json!({"kind": "division", "data_hex": crate::util::hex(&data), "ec": ec}));
        }
    });
    let nb = n_b.load(Ordering::Relaxed);
    col.evals_add(nb);
    // distinct block contents: every enumerated block is distinct by construction within a shape
    col.set("basis_divisions", json!(nb));
    col.space(json!({"name": "S_basis", "cases": nb, "shapes": shape_list.len(), "what": "per block shape: zero, every single-nonzero-byte block (255 x positions), all position pairs, dense/zero-run blocks; hooked division vs R's schoolbook remainder", "exhaustive": true, "wall_s": (t0.elapsed().as_secs_f64() * 100.0).round() / 100.0}));
    col.sample(json!({"space": "S_basis", "shape": {"data_len": shape_list[0].0 .0, "ec": shape_list[0].0 .1}, "block": "single non-zero byte 0x01 at position 0"}));

    // ---- (c) the interleaver for all 160 layouts
    let pairs: Vec<(usize, usize)> = (1..=40).flat_map(|v| (0..4).map(move |e| (v, e))).collect();
    let n_c = AtomicU64::new(0);
    pool::par_for(pairs.len(), |pi| {
        let (v, e) = pairs[pi];
        let dc = r::data_codewords(v, e);
        let total = r::total_codewords(v);
        let ec = r::ECPB[e][v];
        let mut datas: Vec<Vec<u8>> = vec![
            (0..dc).map(|i| ((i * 29 + v * 7 + e) % 256) as u8).collect(),
            vec![0xFF; dc],
            vec![0; dc],
            (0..dc).map(|i| if i % 3 == 0 { 0 } else { (i % 255 + 1) as u8 }).collect(),
        ];
        // one non-zero byte at the start of each block (exercises every block's EC slot)
        let (short, sl, long) = r::block_layout(v, e);
        let mut off = 0;
        for b in 0..short + long {
            let bl = if b < short { sl } else { sl + 1 };
            // the only non-zero byte of the whole data at the start, in the middle, and at each of the last nine
            // positions of block b (a block that is zero except for its tail; a zero block after a non-zero one)
            let mut ps: Vec<usize> = vec![0, 1, bl / 2, bl / 3, 7.min(bl - 1), 8.min(bl - 1)];
            ps.extend((bl.saturating_sub(9)..bl).collect::<Vec<_>>());
            ps.sort();
            ps.dedup();
            for p in ps {
                let mut d = vec![0u8; dc];
                d[off + p] = ((b + p) % 255 + 1) as u8;
                datas.push(d);
            }
            off += bl;
        }
        // the block layout (Table 9 split, interleave order) is C02's concern: C07 judges the EC codewords
        // only where the position-dependent data set shows that the layout is the standard one
        let mut layout_ok = true;
        for (di, data) in datas.iter().enumerate() {
            n_c.fetch_add(1, Ordering::Relaxed);
            let got = match subject::guarded(|| verif::structure(data, ECLS[e], VERSIONS[v - 1]).to_vec()) {
                Ok(g) => g,
                Err(msg) => {
                    viol(&col, (2, (pi * 4000 + di) as u64), "structure-panic", format!("block structuring panicked for v{} level {}: {}", v, e, msg), json!({"kind": "structure", "version": v, "ecl": e, "data_hex": crate::util::hex(data)}));
                    continue;
                }
            };
            col.digest(crate::util::fnv(&got[..total]) ^ (pi as u64) << 8 ^ di as u64);
            let blocks = r::deinterleave(&got[..total], v, e);
            let mut off = 0;
            let mut all_data_ok = true;
            for blk in blocks.iter() {
                let dl = blk.len() - ec;
                if blk[..dl] != data[off..off + dl] {
                    all_data_ok = false;
                }
                off += dl;
            }
            if di == 0 {
                layout_ok = all_data_ok;
            }
            if !layout_ok || !all_data_ok {
                continue;
            }
            for (bi, blk) in blocks.iter().enumerate() {
                let dl = blk.len() - ec;
                let want = r::rs_remainder(&blk[..dl], ec);
                if blk[dl..] != want[..] {
                    viol(&col, (2, (pi * 4000 + di) as u64), "block-ec", format!("v{} level {} block {} (data {}, ec {}): emitted EC codewords are not the remainder", v, e, bi, dl, ec), json!({"kind": "structure", "version": v, "ecl": e, "data_hex": crate::util::hex(data)}));
                    break;
                }
            }
        }
    });
    col.evals_add(n_c.load(Ordering::Relaxed));
    col.space(json!({"name": "interleaver", "cases": n_c.load(Ordering::Relaxed), "what": "hooked block structuring for all 160 (version, level) with dense, zero, sparse data and data whose only non-zero byte sits at the start, middle or one of the last nine positions of one block; EC part of every block compared with R", "exhaustive": true}));

    // ---- (d) public API tie-in: all single-bit payloads at full capacity, byte mode, v1..v4 (thorough v1..v6)
    let vmax = if thorough { 5 } else { 3 };
    let mut cases = vec![];
    for v in 1..=vmax {
        for e in 0..4usize {
            if r::NBLK[e][v] != 1 {
                continue; // single-block symbols only: no block layout (C02) is involved in reading the EC back
            }
            let cap = r::cap(v, e, 2);
            for bit in 0..8 * cap {
                cases.push((v, e, cap, bit));
            }
        }
    }
    pool::par_for(cases.len(), |i| {
        let (v, e, cap, bit) = cases[i];
        let mut input = vec![0u8; cap];
        input[bit / 8] = 1 << (7 - bit % 8);
        let o = subject::Opts { mode: Some(2), ecl: Some(e as u8), version: Some(v as u8), mask: Some(0), order: 0 };
        match subject::build(&input, &o) {
            subject::Outcome::Ok(q) => {
                col.eval(Some(crate::core::obs_digest(&q)));
                if let Ok(d) = r::decode_symbol(&subject::values(&q), q.size) {
                    let ec = r::ECPB[e][v];
                    for (bi, blk) in d.blocks.iter().enumerate() {
                        let dl = blk.len() - ec;
                        if blk[dl..] != r::rs_remainder(&blk[..dl], ec)[..] {
                            viol(&col, (3, i as u64), "symbol-ec", format!("v{} level {}: EC codewords of block {} read back from the built symbol are not the remainder of its data codewords", v, e, bi), subject::case_json(&input, &o));
                            break;
                        }
                    }
                }
            }
            _ => {
                col.eval(None);
                col.skipped_panic();
            }
        }
    });
    col.space(json!({"name": "api tie-in", "cases": cases.len(), "what": format!("every single-bit byte-mode payload at full capacity for the single-block (version, level) pairs of v1..v{}, EC read back from the symbol", vmax), "exhaustive": true}));
    col
}
