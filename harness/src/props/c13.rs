//! C13: raster/PNG output reproduces the matrix at module centres

use crate::parse::png;
use crate::pool;
use crate::props::svgcheck::{SHAPES, SHAPE_NAMES};
use crate::report::{Collector, Ctx};
use crate::spaces::{content, Family};
use crate::subject::{self, Opts, Outcome};
use fast_qr::convert::image::ImageBuilder;
use fast_qr::convert::Builder;
use fast_qr::QRCode;
use serde_json::{json, Value};

#[derive(Clone, Copy, Debug, PartialEq)]
pub enum Fit {
    Original,
    Width(u32),
    Height(u32),
    Both(u32, u32),
}

#[derive(Clone, Debug)]
pub struct RCase {
    pub v: usize,
    pub shape: usize,
    pub margin: usize,
    pub fit: Fit,
    pub colours: usize,
    pub check_png: bool,
}

pub const COLOUR_PAIRS: [([u8; 4], [u8; 4], &str); 7] = [
    ([0, 0, 0, 255], [255, 255, 255, 255], "black on white"),
    ([255, 255, 255, 255], [0, 0, 0, 255], "white on black"),
    ([255, 0, 0, 255], [0, 0, 0, 0], "red on fully transparent"),
    ([0, 0, 255, 255], [255, 255, 0, 255], "blue on yellow"),
    ([16, 32, 48, 255], [250, 128, 1, 255], "dark slate on orange"),
    // anti-aliased edges of non-square shapes get partial alpha with channels that are neither 0 nor 255: the PNG
    // bytes must still decode to the pixmap (premultiplied / straight alpha conversions done once, not twice)
    ([30, 136, 229, 255], [0, 0, 0, 0], "azure on fully transparent"),
    // a background that is neither opaque nor absent: light cells and the quiet zone show it as it is (nothing lies under
    // it), within the rounding of one premultiply / demultiply round trip
    ([0, 0, 0, 255], [128, 128, 128, 128], "black on half-transparent grey"),
];
pub const NPAIRS: usize = COLOUR_PAIRS.len();

impl RCase {
    pub fn to_json(&self) -> Value {
        let fit = match self.fit {
            Fit::Original => json!({"fit": "original"}),
            Fit::Width(w) => json!({"fit": "width", "w": w}),
            Fit::Height(h) => json!({"fit": "height", "h": h}),
            Fit::Both(w, h) => json!({"fit": "both", "w": w, "h": h}),
        };
        json!({"kind": "raster", "version": self.v, "shape": self.shape, "margin": self.margin, "fit": fit, "colours": self.colours, "check_png": self.check_png})
    }
    pub fn from_json(v: &Value) -> Option<Self> {
        let f = v.get("fit")?;
        let fit = match f.get("fit")?.as_str()? {
            "original" => Fit::Original,
            "width" => Fit::Width(f.get("w")?.as_u64()? as u32),
            "height" => Fit::Height(f.get("h")?.as_u64()? as u32),
            "both" => Fit::Both(f.get("w")?.as_u64()? as u32, f.get("h")?.as_u64()? as u32),
            _ => return None,
        };
        Some(RCase { v: v.get("version")?.as_u64()? as usize, shape: v.get("shape")?.as_u64()? as usize, margin: v.get("margin")?.as_u64()? as usize, fit, colours: v.get("colours")?.as_u64()? as usize, check_png: v.get("check_png")?.as_bool()? })
    }
}

/// a second symbol of the same version with other modules (rendered first on a builder that is then reused)
fn symbol_other(v: usize) -> Option<Box<QRCode>> {
    let input = content(Family::Lo, 2, crate::refmodel::cap(v, 1, 2) / 2);
    match subject::build(&input, &Opts { mode: Some(2), ecl: Some(1), version: Some(v as u8), mask: None, order: 0 }) {
        Outcome::Ok(q) => Some(q),
        _ => None,
    }
}

fn symbol(v: usize) -> Option<Box<QRCode>> {
    let input = content(Family::Ctr, 2, crate::refmodel::cap(v, 1, 2));
    match subject::build(&input, &Opts { mode: Some(2), ecl: Some(1), version: Some(v as u8), mask: None, order: 0 }) {
        Outcome::Ok(q) => Some(q),
        _ => None,
    }
}

pub fn check_case(c: &RCase, q: &QRCode) -> (Vec<(String, String)>, Option<u64>) {
    check_case2(c, q, None)
}

pub fn check_case2(c: &RCase, q: &QRCode, other: Option<&QRCode>) -> (Vec<(String, String)>, Option<u64>) {
    let mut out = vec![];
    let n = q.size;
    let s = n + 2 * c.margin;
    let (fg, bg, _) = COLOUR_PAIRS[c.colours];
    // two layered configurations take the place of the plain one in two cases out of five:
    //  1 = same colour below and above another colour (fg shape, green circle, fg shape): the top layer decides;
    //  2 = "hollow": a green square below, the case's shape in the background colour on top (opaque backgrounds only):
    //      the centre of a dark module shows the top layer, i.e. the background colour
    let layered = match (c.v + 3 * c.margin + c.colours + c.shape) % 5 {
        0 => 1,
        1 if bg[3] == 255 => 2,
        _ => 0,
    };
    let fg = if layered == 2 { bg } else { fg };
    let mk = || {
        let mut b = ImageBuilder::default();
        if layered > 0 {
            let (fg0, _, _) = COLOUR_PAIRS[c.colours];
            b.margin(c.margin).background_color(bg);
            if layered == 1 {
                b.shape_color(SHAPES[c.shape], fg0).shape_color(SHAPES[if c.shape == 1 { 5 } else { 1 }], [10, 200, 10, 255]).shape_color(SHAPES[c.shape], fg0);
            } else {
                b.shape_color(SHAPES[0], [10, 200, 10, 255]).shape_color(SHAPES[c.shape], bg);
            }
            match c.fit {
                Fit::Original => {}
                Fit::Width(w) => {
                    b.fit_width(w);
                }
                Fit::Height(h) => {
                    b.fit_height(h);
                }
                Fit::Both(w, h) => {
                    b.fit_width(w);
                    b.fit_height(h);
                }
            }
            return b;
        }
        // colours go through every route in turn: module_color with [u8; 4] arrays, Vec<u8>, &[u8], and the layer's own
        // colour given with shape_color (no module_color call at all)
        b.margin(c.margin);
        // the square shape is also what a builder draws when no shape is named at all: every second square case leaves
        // the shape() call out
        let name_shape = !(c.shape == 0 && (c.v + c.margin / 2 + c.colours) % 2 == 0);
        if name_shape && (c.v + c.margin + c.shape) % 4 != 3 {
            b.shape(SHAPES[c.shape]);
        }
        match (c.v + c.margin + c.shape) % 4 {
            0 => {
                b.module_color(fg).background_color(bg);
            }
            1 => {
                b.module_color(fg.to_vec()).background_color(bg.to_vec());
            }
            2 => {
                b.module_color(&fg[..]).background_color(&bg[..]);
            }
            _ if !name_shape => {
                b.module_color(fg).background_color(bg);
            }
            _ => {
                b.shape_color(SHAPES[c.shape], fg).background_color(bg);
            }
        }
        match c.fit {
            Fit::Original => {}
            Fit::Width(w) => {
                b.fit_width(w);
            }
            Fit::Height(h) => {
                b.fit_height(h);
            }
            Fit::Both(w, h) => {
                b.fit_width(w);
                b.fit_height(h);
            }
        }
        b
    };
    // (width, height, straight RGBA)
    let res = subject::guarded(|| {
        let pm = mk().to_pixmap(q);
        let (w, h) = (pm.width() as usize, pm.height() as usize);
        let mut rgba = Vec::with_capacity(w * h * 4);
        for p in pm.pixels() {
            let d = p.demultiply();
            rgba.extend_from_slice(&[d.red(), d.green(), d.blue(), d.alpha()]);
        }
        (w, h, rgba)
    });
    let (w, h, rgba) = match res {
        Ok(x) => x,
        Err(m) => return (vec![("panic".into(), format!("to_pixmap panicked: {}", m))], None),
    };
    let digest = crate::util::fnv(&rgba) ^ ((w as u64) << 32);
    let want_side = match c.fit {
        Fit::Original => s,
        Fit::Width(x) => x as usize,
        Fit::Height(x) => x as usize,
        Fit::Both(a, b) => a.min(b) as usize,
    };
    if w != h {
        out.push(("not-square".into(), format!("pixmap is {} x {}", w, h)));
        return (out, Some(digest));
    }
    if w != want_side {
        out.push(("side".into(), format!("pixmap side {}, expected {} (symbol side with margins {}, fit {:?})", w, want_side, s, c.fit)));
        return (out, Some(digest));
    }
    let scale = w as f64 / s as f64;
    let vals = subject::values(q);
    let expect = |col: usize, row: usize| -> [u8; 4] {
        let m = c.margin;
        let dark = col >= m && row >= m && col < m + n && row < m + n && vals[(row - m) * n + (col - m)];
        if dark {
            fg
        } else {
            bg
        }
    };
    let px = |x: usize, y: usize| -> [u8; 4] {
        let i = (y * w + x) * 4;
        [rgba[i], rgba[i + 1], rgba[i + 2], rgba[i + 3]]
    };
    let same = |a: [u8; 4], b: [u8; 4]| a == b || (a[3] == 0 && b[3] == 0);
    // against an expected colour with partial alpha: +-2 per channel (premultiplied storage)
    let close = |a: [u8; 4], e: [u8; 4]| same(a, e) || (e[3] > 0 && e[3] < 255 && (0..4).all(|i| (a[i] as i32 - e[i] as i32).abs() <= 2));
    // (layered configurations: where two layers of different colours meet, edge pixels blend; centres only)
    let exact_cells = c.shape == 0 && (w % s == 0) && layered == 0;
    let k = w / s;
    'outer: for row in 0..s {
        for col in 0..s {
            let e = expect(col, row);
            if exact_cells {
                for dy in 0..k {
                    for dx in 0..k {
                        let p = px(col * k + dx, row * k + dy);
                        if !close(p, e) {
                            out.push(("cell-pixel".into(), format!("square shape at integer scale {}: pixel ({}, {}) of cell (col {}, row {}) is {:?}, expected {:?}", k, col * k + dx, row * k + dy, col, row, p, e)));
                            break 'outer;
                        }
                    }
                }
            } else if scale >= 4.0 {
                let x = ((col as f64 + 0.5) * scale).floor() as usize;
                let y = ((row as f64 + 0.5) * scale).floor() as usize;
                let p = px(x.min(w - 1), y.min(h - 1));
                if !close(p, e) {
                    let what = if e == fg { "dark module" } else if col < c.margin || row < c.margin || col >= c.margin + n || row >= c.margin + n { "quiet-zone cell" } else { "light module" };
                    out.push(("centre-pixel".into(), format!("{} shape, scale {:.3}: centre pixel ({}, {}) of {} (col {}, row {}) is {:?}, expected {:?}", SHAPE_NAMES[c.shape], scale, x, y, what, col, row, p, e)));
                    break 'outer;
                }
            }
        }
    }
    if c.check_png {
        match subject::guarded(|| mk().to_bytes(q)) {
            Ok(Ok(bytes)) => match png::decode(&bytes) {
                Ok(img) => {
                    if img.width != w || img.height != h {
                        out.push(("png-size".into(), format!("PNG is {} x {}, pixmap {} x {}", img.width, img.height, w, h)));
                    } else if let Some(i) = (0..w * h).find(|&i| !same([img.rgba[4 * i], img.rgba[4 * i + 1], img.rgba[4 * i + 2], img.rgba[4 * i + 3]], [rgba[4 * i], rgba[4 * i + 1], rgba[4 * i + 2], rgba[4 * i + 3]])) {
                        out.push(("png-pixels".into(), format!("PNG pixel ({}, {}) is {:?}, pixmap has {:?}", i % w, i / w, &img.rgba[4 * i..4 * i + 4], &rgba[4 * i..4 * i + 4])));
                    }
                }
                Err(e) => out.push(("png-undecodable".into(), format!("to_bytes() output is not a valid PNG for the independent reader: {}", e))),
            },
            Ok(Err(e)) => out.push(("png-error".into(), format!("to_bytes returned an error: {}", e))),
            Err(m) => out.push(("panic".into(), format!("to_bytes panicked: {}", m))),
        }
        // the same on a builder that has already rendered another symbol of the same pixel size: the PNG and the
        // pixmap of *this* symbol must not carry anything over
        if let (Some(o), 0) = (other, layered) {
            let r = subject::guarded(|| {
                // the used builder reaches the final options through a history: other colours, another margin and
                // other fit bounds first (a bound that is set, overridden by the other one, and set again), a render
                // of another symbol in between, then the final values
                let mut b = ImageBuilder::default();
                b.shape(SHAPES[c.shape]).margin(c.margin + 1).module_color([9, 99, 199, 255]).background_color([250, 250, 1, 255]);
                match c.fit {
                    Fit::Original => {}
                    Fit::Width(w) => {
                        b.fit_width(w / 2 + 1);
                    }
                    Fit::Height(h) => {
                        b.fit_height(h / 2 + 1);
                    }
                    Fit::Both(w, h) => {
                        b.fit_width(w);
                        b.fit_height(w.min(h) / 2 + 1);
                    }
                }
                let _ = b.to_bytes(o);
                b.margin(c.margin);
                match c.fit {
                    Fit::Original => {}
                    Fit::Width(w) => {
                        b.fit_width(w);
                    }
                    Fit::Height(h) => {
                        b.fit_height(h);
                    }
                    Fit::Both(_, h) => {
                        b.fit_height(h);
                    }
                }
                // this very symbol with the earlier colours, then only the colours change
                let _ = b.to_bytes(q);
                b.module_color(fg).background_color(bg);
                let after_colour_change = b.to_bytes(q);
                if let (Ok(x), Ok(y)) = (&after_colour_change, &mk().to_bytes(q)) {
                    if x != y {
                        return (Err(fast_qr::convert::image::ImageError::ImageError("colour".into())), vec![], mk().to_bytes(q));
                    }
                }
                let _ = b.to_bytes(o);
                let bytes = b.to_bytes(q);
                let _ = b.to_pixmap(o);
                let pm = b.to_pixmap(q);
                let mut again = Vec::with_capacity(w * h * 4);
                for p in pm.pixels() {
                    let d = p.demultiply();
                    again.extend_from_slice(&[d.red(), d.green(), d.blue(), d.alpha()]);
                }
                (bytes, again, mk().to_bytes(q))
            });
            match r {
                Ok((Ok(used), again, Ok(fresh))) => {
                    if used != fresh {
                        out.push(("png-differs-on-reused-builder".into(), "to_bytes() of a builder that reached the same final options through a history (other colours, margin and fit bounds first, renders of another symbol in between) differs from a fresh builder's output for the same symbol".to_string()));
                    }
                    if again != rgba {
                        out.push(("pixmap-differs-on-reused-builder".into(), "to_pixmap() of a builder that reached the same final options through a history differs from a fresh builder's pixmap".to_string()));
                    }
                }
                Ok((Err(fast_qr::convert::image::ImageError::ImageError(m)), _, _)) if m == "colour" => out.push(("png-keeps-earlier-colours".into(), "after rendering this symbol, changing only the colours and rendering it again, to_bytes() differs from a fresh builder with the final colours".to_string())),
                Ok(_) => out.push(("png-error".into(), "to_bytes returned an error on a reused builder".to_string())),
                Err(m) => out.push(("panic".into(), format!("render on a reused builder panicked: {}", m))),
            }
        }
    }
    (out, Some(digest))
}

pub fn replay(case: &Value) -> Result<Vec<(String, String)>, String> {
    let c = RCase::from_json(case).ok_or("malformed raster case")?;
    let q = symbol(c.v).ok_or("build failed")?;
    let o = symbol_other(c.v);
    Ok(check_case2(&c, &q, o.as_deref()).0.into_iter().map(|(k, w)| (format!("C13/{}", k), w)).collect())
}

pub fn run(ctx: &Ctx) -> Collector {
    let col = Collector::new("C13", "exploration");
    col.set_rule("cases = (a) square shape at original scale: all 40 versions x margins {0,4} x 3 colour pairs, every pixel exact; (b) 6 shapes x versions x margins x fits {width kS, height kS for k in 4,5,8; (w,h) with w != h in both orders; non-integer scale kS+3} x 7 colour pairs {black/white, white/black, red on fully transparent, blue/yellow, slate/orange, azure on fully transparent, black on half-transparent grey}; the square shape is named in one half of its cases and left to the default in the other; two cases in five are layered (the same colour below and above another one; a hollow module: the top layer in the background colour over a green square) and the top layer decides the centre pixel (quick: versions {1,2,7,40}, margins {0,4}, colour pair rotated per case, plus every version x every shape at 4 pixels per module; thorough: all 40 versions, margins {0,1,4}, full product); oracle: pixmap square with the requested side, centre pixel of every dark module = module colour, of every light module and quiet-zone cell = background (scale >= 4), every pixel of every cell for the square shape at integer scale, and to_bytes() decoded by an independent PNG reader (own inflate, CRC-32, Adler-32, unfilter) equals the de-multiplied pixmap, also on a builder that has rendered another symbol of the same size before; non-trivial = a pixmap was rendered; distinct = distinct pixel buffers");
    col.assume("module colours opaque; background alpha 0 or 255 (the expected pixel is the colour itself), and one pair with a half-transparent background, whose light cells are expected to show that colour within +-2 per channel (nothing lies under the background); no other blending rule assumed");
    col.assume("resvg/usvg/tiny-skia/png are part of the subject as linked; fit sizes below 4 pixels per module are checked for size only (square shape at integer scale >= 1: every pixel)");
    let thorough = ctx.tier.thorough();
    let mut cases: Vec<RCase> = vec![];
    for v in 1..=40usize {
        for margin in [0usize, 4] {
            for colours in 0..NPAIRS {
                cases.push(RCase { v, shape: 0, margin, fit: Fit::Original, colours, check_png: true });
            }
        }
    }
    let n_a = cases.len();
    let all_versions: Vec<usize> = (1..=40).collect();
    let vers: &[usize] = if thorough { &all_versions } else { &[1, 2, 7, 40] };
    let margins: &[usize] = if thorough { &[0, 1, 4] } else { &[0, 4] };
    let mut idx = 0usize;
    for &v in vers {
        for shape in 0..6usize {
            for &margin in margins {
                let s = (17 + 4 * v + 2 * margin) as u32;
                let fits = [
                    Fit::Width(4 * s), Fit::Width(5 * s), Fit::Width(8 * s),
                    Fit::Height(4 * s), Fit::Height(5 * s), Fit::Height(8 * s),
                    Fit::Both(4 * s, 6 * s), Fit::Both(7 * s, 5 * s),
                    Fit::Width(4 * s + 3),
                ];
                for fit in fits {
                    let side = match fit {
                        Fit::Width(w) => w,
                        Fit::Height(h) => h,
                        Fit::Both(a, b) => a.min(b),
                        Fit::Original => s,
                    };
                    let cps: Vec<usize> = if thorough { (0..NPAIRS).collect() } else { vec![idx % NPAIRS] };
                    idx += 1;
                    for colours in cps {
                        cases.push(RCase { v, shape, margin, fit, colours, check_png: thorough || side <= 500 });
                    }
                }
            }
        }
    }
    // every version x every shape at 4 pixels per module (centre sampling), colour pair rotating
    if !thorough {
        for v in 1..=40usize {
            for shape in 0..6usize {
                let s = (17 + 4 * v + 2) as u32;
                cases.push(RCase { v, shape, margin: 1, fit: Fit::Width(4 * s), colours: (v + shape) % NPAIRS, check_png: v <= 10 });
            }
        }
    }
    // wide quiet zones (coordinates beyond 255): original scale, square shape, every pixel
    for &(v, margin) in &[(40usize, 100usize), (25, 150), (1, 300), (40, 80)] {
        cases.push(RCase { v, shape: 0, margin, fit: Fit::Original, colours: v % NPAIRS, check_png: false });
    }
    // small fits (>= 1 pixel per module, square shape, integer scale): exact
    for &v in &[1usize, 3, 10] {
        for k in [1u32, 2, 3] {
            let s = (17 + 4 * v + 8) as u32;
            cases.push(RCase { v, shape: 0, margin: 4, fit: Fit::Width(k * s), colours: (k as usize) % NPAIRS, check_png: true });
            cases.push(RCase { v, shape: 0, margin: 4, fit: Fit::Both(k * s, k * s + 7), colours: (k as usize + 1) % NPAIRS, check_png: true });
        }
    }
    let qs: Vec<Option<Box<QRCode>>> = (1..=40).map(symbol).collect();
    let qs_other: Vec<Option<Box<QRCode>>> = (1..=40).map(symbol_other).collect();
    // heaviest first for better load balance
    let mut order: Vec<usize> = (0..cases.len()).collect();
    order.sort_by_key(|&i| std::cmp::Reverse(cases[i].v * 100 + match cases[i].fit { Fit::Original => 0, _ => 50 }));
    pool::par_for(order.len(), |j| {
        let i = order[j];
        let c = &cases[i];
        match &qs[c.v - 1] {
            Some(q) => {
                let (f, d) = check_case2(c, q, qs_other[c.v - 1].as_deref());
                col.eval(d);
                for (k, w) in f {
                    col.violation((if i < n_a { 0 } else { 1 }, i as u64), format!("C13/{}", k), format!("v{} {} margin {} {:?} {}: {}", c.v, SHAPE_NAMES[c.shape], c.margin, c.fit, COLOUR_PAIRS[c.colours].2, w), c.to_json());
                }
            }
            None => {
                col.eval(None);
                col.skipped_panic();
            }
        }
    });
    col.space(json!({"name": "original scale", "cases": n_a, "what": "square shape, all 40 versions x margins {0,4} x 7 colour pairs, every pixel + PNG round trip", "exhaustive": true}));
    col.space(json!({"name": "shapes x fits", "cases": cases.len() - n_a, "what": format!("6 shapes x versions {:?} x margins {:?} x 9 fit requests x colour pairs (+ small integer fits for the square shape; quick: + all 40 versions x 6 shapes at 4 pixels per module)", vers, margins), "exhaustive": true}));
    col.sample(cases[0].to_json());
    col.sample(cases[n_a].to_json());
    col.sample(cases[cases.len() - 1].to_json());
    col
}
