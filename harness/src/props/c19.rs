//! C19: file output is all-or-error. E4: every (call index, fault class) sequence up to 2
//! deviations on the write path of to_file, injected below the crate by an LD_PRELOAD shim and
//! discovered dynamically from the syscall log of the run being extended; plus real OS faults.

use crate::pool;
use crate::report::{Collector, Ctx};
use crate::spaces::{content, Family};
use crate::subject::{self, Opts, Outcome};
use fast_qr::convert::image::ImageBuilder;
use fast_qr::convert::svg::SvgBuilder;
use fast_qr::convert::{Builder, Shape};
use fast_qr::QRCode;
use serde_json::{json, Value};
use std::sync::atomic::{AtomicU64, Ordering};

// a trailing '+' = persistent (this call and every later call of that kind fails the same way): a writer that
// retries must give up with an error, not fall through to Ok
pub const OPEN_FAULTS: [&str; 12] = ["EACCES", "EROFS", "ENOENT", "EISDIR", "ENOSPC", "EMFILE", "ETXTBSY", "EBUSY", "EAGAIN+", "ETXTBSY+", "EBUSY+", "ETIMEDOUT+"];
pub const WRITE_FAULTS: [&str; 13] = ["ENOSPC", "EIO", "EDQUOT", "EINTR", "SHORT1", "SHORTHALF", "SHORTLAST", "EFBIG", "EPIPE", "ECONNRESET", "EAGAIN+", "ENOSPC+", "EIO+"];

fn symbol(v: usize) -> Option<Box<QRCode>> {
    let input = content(Family::Ctr, 2, crate::refmodel::cap(v, 1, 2));
    match subject::build(&input, &Opts { mode: Some(2), ecl: Some(1), version: Some(v as u8), mask: Some(2), order: 0 }) {
        Outcome::Ok(q) => Some(q),
        _ => None,
    }
}

/// a caller-supplied shape that draws one module in seven and nothing for the others: a document much shorter than
/// any built-in shape gives for the same symbol
fn sparse_command(y: usize, x: usize, _cell: fast_qr::Module) -> String {
    if (x + 2 * y) % 7 == 0 {
        format!("M{},{}h1v1h-1", x, y)
    } else {
        String::new()
    }
}

fn panicking_command(_y: usize, _x: usize, _cell: fast_qr::Module) -> String {
    panic!("a caller-supplied shape that fails")
}

pub const LOGO_NAME: &str = "c19logo.png";

/// the builder of a target kind:
///  svgd default; svg rounded squares; svgc the sparse caller-supplied shape, margin 0; svgk / pngk a single layer with
///  its own colour (shape_color) and nothing else; pngw both fit bounds with a product beyond 2^32; svgi an embedded image given
///  as a data URI without parameters (`data:image/svg+xml,...`);
///  pngd default at original scale; png fit_width(200); pngi an embedded image given as a relative file name (the
///  child runs in a directory that holds a picture of that name; the output goes to another directory)
fn svg_for(kind: &str) -> SvgBuilder {
    let mut b = SvgBuilder::default();
    match kind {
        "svg" => {
            b.shape(Shape::RoundedSquare);
        }
        "svgc" => {
            b.shape(Shape::Command(sparse_command)).margin(0);
        }
        "svgk" => {
            // one layer with its own colour and nothing else (no module_color, no image)
            b.shape_color(Shape::Circle, [200, 30, 30, 255]);
        }
        "svgr" => {
            // an embedded image on a round backdrop (the renderer needs a clip path or a second element for it)
            b.image("logo.png".to_string()).image_background_shape(fast_qr::convert::ImageBackgroundShape::Circle).image_background_color([255, 255, 0, 255]);
        }
        "svgi" => {
            b.image("data:image/svg+xml,%3Csvg xmlns='http://www.w3.org/2000/svg' viewBox='0 0 2 2'%3E%3Cpath d='M0 0h1v1H0z'/%3E%3C/svg%3E".to_string());
        }
        _ => {}
    }
    b
}

fn png_for(kind: &str) -> ImageBuilder {
    let mut b = ImageBuilder::default();
    match kind {
        "png" => {
            b.fit_width(200);
        }
        "pngi" => {
            b.fit_width(120).image(LOGO_NAME.to_string());
        }
        "pngk" => {
            b.shape_color(Shape::Diamond, [30, 30, 200, 255]).fit_height(150);
        }
        "pngw" => {
            // a bounding box far wider than high: the square is bounded by the height
            b.fit_width(4_000_000_000).fit_height(300);
        }
        _ => {}
    }
    b
}

fn expected_bytes(kind: &str, q: &QRCode) -> Result<Vec<u8>, String> {
    subject::guarded(|| if kind.starts_with("svg") { svg_for(kind).to_str(q).into_bytes() } else { png_for(kind).to_bytes(q).unwrap_or_default() })
}

/// expected bytes of a target; kinds whose rendering reads the working directory are rendered by a child process that
/// runs where the to_file child will run
fn expected_for(kind: &str, v: usize, q: &QRCode, logo_dir: &str, scratch: &str) -> Result<Vec<u8>, String> {
    if kind != "pngi" {
        return expected_bytes(kind, q);
    }
    let exe = std::env::current_exe().map_err(|e| e.to_string())?;
    let outp = format!("{}/expected-{}-{}.bin", scratch, kind, v);
    let st = std::process::Command::new(exe).arg("c19-child").arg("expect").arg(kind).arg(v.to_string()).arg(&outp).current_dir(logo_dir).stderr(std::process::Stdio::null()).stdout(std::process::Stdio::null()).status().map_err(|e| e.to_string())?;
    if !st.success() {
        return Err(format!("child rendering the expected bytes of {} v{} failed: {:?}", kind, v, st));
    }
    let b = std::fs::read(&outp).map_err(|e| e.to_string())?;
    let _ = std::fs::remove_file(&outp);
    Ok(b)
}

/// writes the picture the `pngi` target embeds; returns the directory
fn make_logo_dir(base: &str) -> Result<String, String> {
    let d = format!("{}/logos", base);
    std::fs::create_dir_all(&d).map_err(|e| e.to_string())?;
    let q = symbol(1).ok_or("build")?;
    let mut b = ImageBuilder::default();
    b.margin(1);
    b.to_file(&q, &format!("{}/{}", d, LOGO_NAME)).map_err(|e| format!("{:?}", e))?;
    Ok(d)
}

/// child side: build the symbol, call the real to_file, report
pub fn child_main(args: &[String]) -> i32 {
    if args.len() == 4 && args[0] == "expect" {
        let v: usize = args[2].parse().unwrap_or(1);
        return match symbol(v).and_then(|q| expected_bytes(&args[1], &q).ok()) {
            Some(b) if std::fs::write(&args[3], &b).is_ok() => 0,
            _ => 2,
        };
    }
    if args.len() < 3 {
        return 2;
    }
    let kind = args[0].as_str();
    let v: usize = args[1].parse().unwrap_or(1);
    let path = args[2].replace("\\0", "\0");
    let q = match symbol(v) {
        Some(q) => q,
        None => {
            println!("RESULT buildfail");
            return 0;
        }
    };
    // the error value is also taken through the crate's own `From<..> for ConvertError` (what `?` does in a caller
    // returning the crate's umbrella error) and formatted: an error value that panics when it is looked at or
    // propagated is not "an error value and no panic"
    fn use_svg_err(e: fast_qr::convert::svg::SvgError) -> String {
        let d = format!("{:?}", e);
        let c: fast_qr::convert::ConvertError = e.into();
        format!("{} -> {:?}", d, c)
    }
    fn use_png_err(e: fast_qr::convert::image::ImageError) -> String {
        let d = format!("{:?} / {}", e, e);
        let c: fast_qr::convert::ConvertError = e.into();
        format!("{} -> {:?}", d, c)
    }
    // kinds svgp / pngp: the export comes after exports that fail inside the renderer (an empty picture; a caller-supplied
    // shape that panics; both caught) and after an in-memory rendering of the same builder: none of it may change what
    // this export does
    if kind == "svgp" || kind == "pngp" || kind == "svgr" {
        let scratch = format!("{}.prelude", path.replace('\0', ""));
        let _ = subject::guarded(|| {
            let mut b = ImageBuilder::default();
            b.fit_width(0);
            b.to_file(&q, &scratch)
        });
        let _ = subject::guarded(|| {
            let mut b = SvgBuilder::default();
            b.shape(Shape::Command(panicking_command));
            b.to_file(&q, &scratch)
        });
        let _ = subject::guarded(|| svg_for(kind).to_str(&q).len());
        let _ = std::fs::remove_file(&scratch);
    }
    let r = subject::guarded(|| if kind.starts_with("svg") { svg_for(kind).to_file(&q, &path).map_err(use_svg_err) } else { png_for(kind).to_file(&q, &path).map_err(use_png_err) });
    match r {
        Ok(Ok(())) => println!("RESULT ok"),
        Ok(Err(e)) => println!("RESULT err {}", e.replace('\n', " ")),
        Err(m) => println!("RESULT panic {}", m.replace('\n', " ")),
    }
    0
}

#[derive(Debug, Clone)]
pub struct Run {
    pub result: String, // ok | err | panic | abort
    pub detail: String,
    pub log: Vec<String>,
    pub opens: usize,
    pub writes: usize,
    pub injected_hard: usize,
    pub injected_soft: usize,
}

fn shim_path(verif_dir: &str) -> String {
    format!("{}/faultshim/faultshim.so", verif_dir)
}

/// Runs to_file in a child process under `plan` (shim deviations)
pub fn run_child(verif_dir: &str, kind: &str, v: usize, path: &str, plan: &[String], target_marker: &str, log_path: &str, cwd: Option<&str>) -> Result<Run, String> {
    let exe = std::env::current_exe().map_err(|e| e.to_string())?;
    let _ = std::fs::remove_file(log_path);
    let mut cmd = std::process::Command::new(exe);
    if let Some(d) = cwd {
        cmd.current_dir(d);
    }
    cmd.arg("c19-child").arg(kind).arg(v.to_string()).arg(path.replace('\0', "\\0"));
    cmd.env("LD_PRELOAD", shim_path(verif_dir));
    cmd.env("FQV_FAULT_PATH", target_marker);
    cmd.env("FQV_FAULT_PLAN", plan.join(","));
    cmd.env("FQV_FAULT_LOG", log_path);
    cmd.stderr(std::process::Stdio::null());
    let out = cmd.output().map_err(|e| format!("cannot run child: {}", e))?;
    let log: Vec<String> = std::fs::read_to_string(log_path).unwrap_or_default().lines().map(|s| s.to_string()).collect();
    let stdout = String::from_utf8_lossy(&out.stdout).to_string();
    let line = stdout.lines().find(|l| l.starts_with("RESULT ")).unwrap_or("");
    let (result, detail) = if !out.status.success() || line.is_empty() {
        ("abort".to_string(), format!("child status {:?}", out.status))
    } else {
        let rest = &line[7..];
        let mut it = rest.splitn(2, ' ');
        (it.next().unwrap_or("").to_string(), it.next().unwrap_or("").to_string())
    };
    if result == "buildfail" {
        return Err("child could not build the symbol".into());
    }
    let opens = log.iter().filter(|l| l.starts_with("open ")).count();
    let writes = log.iter().filter(|l| l.starts_with("write ")).count();
    let injected_hard = log.iter().filter(|l| l.contains("INJECT") && !l.ends_with(&format!("INJECT {}", 4))).count(); // EINTR = 4
    let injected_soft = log.iter().filter(|l| l.ends_with("INJECT 4") || l.contains(" SHORT ")).count();
    Ok(Run { result, detail, log, opens, writes, injected_hard, injected_soft })
}

/// the all-or-error oracle on one run
pub fn judge(run: &Run, file: Option<Vec<u8>>, expected: &[u8], plan: &[String]) -> Vec<(String, String)> {
    let mut out = vec![];
    match run.result.as_str() {
        "panic" | "abort" => out.push(("panic".into(), format!("to_file did not return (plan {:?}): {} {}", plan, run.result, run.detail))),
        "ok" => {
            match &file {
                Some(b) if b == expected => {}
                Some(b) => out.push(("ok-but-file-differs".into(), format!("to_file returned Ok under fault plan {:?} but the file has {} bytes instead of the {} bytes of the in-memory rendering (first difference at {:?})", plan, b.len(), expected.len(), b.iter().zip(expected.iter()).position(|(x, y)| x != y)))),
                None => out.push(("ok-but-no-file".into(), format!("to_file returned Ok under fault plan {:?} but there is no file", plan))),
            }
            // Ok with exactly the right bytes in the file is right however it got there: a writer that recovers from a
            // failed attempt (temporary file refused -> in-place write, retry after a refused open) is not at fault
            let _ = run.injected_hard;
        }
        "err" => {
            if run.injected_hard == 0 && run.injected_soft == 0 && plan.is_empty() {
                out.push(("err-without-fault".into(), format!("to_file returned an error with no fault injected: {}", run.detail)));
            }
        }
        other => out.push(("machinery".into(), format!("unexpected child result {:?}", other))),
    }
    out
}

pub fn replay(case: &Value, verif_dir: &str) -> Result<Vec<(String, String)>, String> {
    let kind = case.get("target").and_then(|x| x.as_str()).ok_or("target")?.to_string();
    let v = case.get("version").and_then(|x| x.as_u64()).ok_or("version")? as usize;
    let plan: Vec<String> = case.get("plan").and_then(|x| x.as_array()).map(|a| a.iter().filter_map(|s| s.as_str().map(|s| s.to_string())).collect()).unwrap_or_default();
    let dir = format!("{}/scratch/c19-replay-{}", verif_dir, std::process::id());
    std::fs::create_dir_all(&dir).map_err(|e| e.to_string())?;
    let q = symbol(v).ok_or("build")?;
    let logo_dir = make_logo_dir(&dir)?;
    let cwd = if kind == "pngi" { Some(logo_dir.as_str()) } else { None };
    let expected = expected_for(&kind, v, &q, &logo_dir, &dir)?;
    let res = if let Some(rel) = case.get("relative_path").and_then(|x| x.as_str()) {
        // the three relative paths of the check resolve as follows from {dir}/rel/a/b
        let deep = format!("{}/rel/a/b", dir);
        std::fs::create_dir_all(&deep).map_err(|e| e.to_string())?;
        let name = rel.rsplit('/').next().unwrap_or(rel);
        let resolved = if rel.starts_with("./") { format!("{}/{}", deep, name) } else { format!("{}/rel/{}", dir, name) };
        let _ = std::fs::remove_file(&resolved);
        let run = run_child(verif_dir, &kind, v, rel, &[], "fqvtarget", &format!("{}/log", dir), Some(&deep))?;
        judge(&run, std::fs::read(&resolved).ok(), &expected, &[])
    } else if let Some(p) = case.get("os_path").and_then(|x| x.as_str()) {
        let path = p.replace("{dir}", &dir);
        let run = run_child(verif_dir, &kind, v, &path, &[], "fqv-no-such-marker", &format!("{}/log", dir), cwd)?;
        judge_os(&run, &path)
    } else {
        let path = format!("{}/fqvtarget.{}", dir, if kind.starts_with("svg") { "svg" } else { "png" });
        let _ = std::fs::remove_file(&path);
        if case.get("stale_file").and_then(|x| x.as_bool()).unwrap_or(false) {
            let _ = std::fs::write(&path, vec![b'S'; 1 << 20]);
        }
        let run = run_child(verif_dir, &kind, v, &path, &plan, "fqvtarget", &format!("{}/log", dir), cwd)?;
        judge(&run, std::fs::read(&path).ok(), &expected, &plan)
    };
    let _ = std::fs::remove_dir_all(&dir);
    Ok(res.into_iter().map(|(k, w)| (format!("C19/{}", k), w)).collect())
}

fn judge_os(run: &Run, path: &str) -> Vec<(String, String)> {
    match run.result.as_str() {
        "err" => vec![],
        "ok" => vec![("ok-on-unwritable-path".into(), format!("to_file({:?}) returned Ok although the file cannot be created or fully written", path))],
        _ => vec![("panic".into(), format!("to_file({:?}) did not return an error value: {} {}", path, run.result, run.detail))],
    }
}

pub fn run(ctx: &Ctx) -> Collector {
    let col = Collector::new("C19", "fault_enumeration");
    col.set_rule("cases = for SvgBuilder::to_file and ImageBuilder::to_file on 17 (thorough 25) builder/symbol targets (default, rounded squares, the default after exports that failed inside the renderer, an embedded image on a round backdrop rendered in memory first, a single layer with its own colour, a fit box of 4e9 x 300, a caller-supplied shape that draws one module in seven, an embedded image given as a parameterless data URI, fit_width, an embedded image given as a relative file name present in the working directory but not in the output directory) whose output sizes range from 0.2 KB to 0.5 MB and straddle the 4 KiB, 8 KiB and 64 KiB buffer sizes: (i) real OS faults: missing directory, path is a directory, /dev/full (ENOSPC at write time), path containing NUL, empty path, long paths with multi-byte characters at four alignments, a 300-character name; (i') no fault over 7 kinds of file already present and through 3 relative paths with . and .. components from a deeper working directory (identical, same length differing in the last / first / one late byte, longer, shorter, empty); (ii) faults injected below the crate by an LD_PRELOAD shim over open/open64/openat/write/close: ALL fault sequences of up to 2 (thorough 3) deviations, a deviation = (k-th open of the target, class in {EACCES, EROFS, ENOENT, EISDIR, ENOSPC, EMFILE, ETXTBSY, EBUSY, and persistently EAGAIN, ETXTBSY, EBUSY, ETIMEDOUT}) or (k-th write to the target, class in {ENOSPC, EIO, EDQUOT, EFBIG, EPIPE, ECONNRESET, EINTR, short 1 byte, short n/2, short n-1, and persistently EAGAIN, ENOSPC, EIO}), k ranging over every call index in the syscall log of the run being extended (DFS over prefixes); each run is a child process calling the real to_file, once with no file present and once over a stale 1 MiB file (longer than any output); oracle: no panic/abort; Ok => file bytes = to_str()/to_bytes() of the same builder; after any delivered fault Err is accepted, Ok only with the exact bytes in the file (a writer that recovers and completes the file is right); non-trivial = a fault was delivered; distinct = distinct (target, plan) pairs with distinct syscall logs");
    col.assume("the OS below the syscall boundary is modelled by the shim's fault classes; faults at close/fsync are not modelled because the crate does not call fsync and ignores close errors like std does");
    let thorough = ctx.tier.thorough();
    let dir = format!("{}/scratch/c19-{}", ctx.verif_dir, std::process::id());
    if std::fs::create_dir_all(&dir).is_err() || !std::path::Path::new(&shim_path(&ctx.verif_dir)).exists() {
        col.machinery_error(format!("scratch directory or {} missing", shim_path(&ctx.verif_dir)));
        return col;
    }
    // output sizes from ~0.3 KB to ~0.5 MB, on both sides of the usual 4 KiB / 8 KiB / 64 KiB buffer sizes:
    // svgd = default SvgBuilder (v1 3.0 KB, v3 5.6 KB, v4 7.0 KB, v5 8.9 KB), svg = rounded squares (v1 9 KB, v10 70 KB),
    // pngd = default ImageBuilder at original scale (a few hundred bytes), png = fit_width(200)
    // svgc = a caller-supplied shape that draws little (v2: 0.3 KB), svgi / pngi = with an embedded image
    let mut targets: Vec<(&str, usize)> = vec![("svgd", 1), ("svgd", 4), ("svgd", 5), ("svg", 1), ("svg", 10), ("pngd", 1), ("png", 1), ("png", 10), ("svgc", 2), ("svgi", 1), ("pngi", 2), ("svgk", 3), ("pngk", 1), ("pngw", 1), ("svgp", 1), ("pngp", 1), ("svgr", 2)];
    if thorough {
        targets.extend([("svgd", 2), ("svgd", 3), ("svgd", 40), ("svg", 25), ("pngd", 40), ("png", 25), ("svgc", 20), ("svgi", 7)]);
    }
    let logo_dir = match make_logo_dir(&dir) {
        Ok(d) => d,
        Err(e) => {
            col.machinery_error(format!("cannot write the picture for the pngi target: {}", e));
            return col;
        }
    };
    let max_dev: usize = if thorough { 3 } else { 2 };
    let runs = AtomicU64::new(0);
    let delivered = AtomicU64::new(0);
    let fault_points = AtomicU64::new(0);
    pool::par_for(targets.len(), |ti| {
        let (kind, v) = targets[ti];
        let q = match symbol(v) {
            Some(q) => q,
            None => {
                col.skipped_panic();
                return;
            }
        };
        let tdir = format!("{}/t{}", dir, ti);
        let _ = std::fs::create_dir_all(&tdir);
        let cwd = if kind == "pngi" { Some(logo_dir.as_str()) } else { None };
        let expected = match expected_for(kind, v, &q, &logo_dir, &tdir) {
            Ok(e) => e,
            Err(m) => {
                col.violation((0, ti as u64), "C19/render-panic".into(), m, json!({"target": kind, "version": v}));
                return;
            }
        };
        let ext = if kind.starts_with("svg") { "svg" } else { "png" };
        let path = format!("{}/fqvtarget.{}", tdir, ext);
        let logp = format!("{}/log", tdir);
        // (i) real OS faults
        let _ = std::fs::create_dir_all(format!("{}/isdir", tdir));
        for (name, p) in [
            ("missing directory", format!("{}/no/such/dir/out.{}", tdir, kind)),
            ("path is a directory", format!("{}/isdir", tdir)),
            ("device full", "/dev/full".to_string()),
            ("NUL in path", format!("{}/a\0b.{}", tdir, kind)),
            ("empty path", String::new()),
            // long paths with multi-byte characters at every alignment (an error message that quotes or shortens
            // the path must not cut a character), and a very long path component (ENAMETOOLONG)
            ("missing directory, long non-ASCII path +0", format!("{}/{}/no/out.{}", tdir, "\u{e9}".repeat(40), kind)),
            ("missing directory, long non-ASCII path +1", format!("{}/x{}/no/out.{}", tdir, "\u{e9}".repeat(40), kind)),
            ("missing directory, long non-ASCII path +2", format!("{}/xx{}\u{1F600}/no/out.{}", tdir, "\u{20ac}".repeat(30), kind)),
            ("missing directory, long non-ASCII path +3", format!("{}/xxx{}/no/\u{4e2d}\u{6587}.{}", tdir, "\u{1F600}".repeat(20), kind)),
            ("name too long", format!("{}/{}.{}", tdir, "n".repeat(300), kind)),
        ] {
            match run_child(&ctx.verif_dir, kind, v, &p, &[], "fqv-no-such-marker", &logp, cwd) {
                Ok(run) => {
                    runs.fetch_add(1, Ordering::Relaxed);
                    delivered.fetch_add(1, Ordering::Relaxed);
                    col.eval(Some(crate::util::fnv(format!("{}{}{}", kind, v, name).as_bytes())));
                    for (k, w) in judge_os(&run, &p) {
                        col.violation((1, ti as u64), format!("C19/{}", k), format!("{} v{} ({}): {}", kind, v, name, w), json!({"kind": "fault", "target": kind, "version": v, "os_fault": name, "os_path": p.replace(&tdir, "{dir}")}));
                    }
                }
                Err(e) => col.machinery_error(e),
            }
        }
        // (i') no fault at all, over every kind of file already present: the result must be exactly the new output
        // (a skipped or partial rewrite shows when the old file has the same length, shares a prefix, or is longer)
        {
            let mut variants: Vec<(&str, Vec<u8>)> = vec![("identical to the new output", expected.clone())];
            let mut v1 = expected.clone();
            if let Some(l) = v1.last_mut() {
                *l ^= 0x20;
            }
            variants.push(("same length, last byte differs", v1));
            let mut v2 = expected.clone();
            if !v2.is_empty() {
                let i = v2.len() * 9 / 10;
                v2[i] ^= 0x01;
            }
            variants.push(("same length, one byte at 90 % differs", v2));
            let mut v3 = expected.clone();
            if let Some(f) = v3.first_mut() {
                *f ^= 0x20;
            }
            variants.push(("same length, first byte differs", v3));
            let mut v4 = expected.clone();
            v4.extend_from_slice(b"TRAILING GARBAGE OF AN OLDER, LONGER FILE");
            variants.push(("new output plus a tail", v4));
            variants.push(("first half of the new output", expected[..expected.len() / 2].to_vec()));
            variants.push(("empty file", vec![]));
            for (name, old) in variants {
                let _ = std::fs::remove_file(&path);
                let _ = std::fs::write(&path, &old);
                match run_child(&ctx.verif_dir, kind, v, &path, &[], "fqvtarget", &logp, cwd) {
                    Ok(run) => {
                        runs.fetch_add(1, Ordering::Relaxed);
                        col.eval(Some(crate::util::fnv(format!("{}{}old:{}", kind, v, name).as_bytes())));
                        let file = std::fs::read(&path).ok();
                        for (k, w) in judge(&run, file, &expected, &[]) {
                            col.violation((2, ti as u64), format!("C19/{}", k), format!("{} v{} (file already present: {}): {}", kind, v, name, w), json!({"kind": "fault", "target": kind, "version": v, "plan": [], "existing_file": name}));
                        }
                    }
                    Err(e) => col.machinery_error(e),
                }
            }
        }
        // (i'') no fault, a relative path that climbs out of the working directory: the file must be where the operating
        // system resolves that path, with exactly the new output
        if cwd.is_none() {
            let deep = format!("{}/rel/a/b", tdir);
            let _ = std::fs::create_dir_all(&deep);
            for (rel, resolved) in [
                (format!("../../fqvtarget-rel.{}", ext), format!("{}/rel/fqvtarget-rel.{}", tdir, ext)),
                (format!("../../../rel/./a/../fqvtarget-rel2.{}", ext), format!("{}/rel/fqvtarget-rel2.{}", tdir, ext)),
                (format!("./fqvtarget-rel3.{}", ext), format!("{}/fqvtarget-rel3.{}", deep, ext)),
            ] {
                let _ = std::fs::remove_file(&resolved);
                match run_child(&ctx.verif_dir, kind, v, &rel, &[], "fqvtarget", &logp, Some(&deep)) {
                    Ok(run) => {
                        runs.fetch_add(1, Ordering::Relaxed);
                        col.eval(Some(crate::util::fnv(format!("{}{}rel:{}", kind, v, rel).as_bytes())));
                        let file = std::fs::read(&resolved).ok();
                        for (k, w) in judge(&run, file, &expected, &[]) {
                            col.violation((2, ti as u64), format!("C19/{}", k), format!("{} v{} (relative path {:?} from a working directory two levels down; the file is looked for where the operating system resolves it): {}", kind, v, rel, w), json!({"kind": "fault", "target": kind, "version": v, "plan": [], "relative_path": rel}));
                        }
                    }
                    Err(e) => col.machinery_error(e),
                }
            }
        }
        // (ii) injected fault sequences, DFS over prefixes, up to 2 deviations, with and without a stale file
        for stale in [false, true] {
            let mut stack: Vec<Vec<String>> = vec![vec![]];
            while let Some(plan) = stack.pop() {
                let _ = std::fs::remove_file(&path);
                if stale {
                    // a stale file LONGER than anything to_file will write (a missing truncate must show)
                    let _ = std::fs::write(&path, vec![b'S'; 1 << 20]);
                }
                let run = match run_child(&ctx.verif_dir, kind, v, &path, &plan, "fqvtarget", &logp, cwd) {
                    Ok(r) => r,
                    Err(e) => {
                        col.machinery_error(e);
                        return;
                    }
                };
                runs.fetch_add(1, Ordering::Relaxed);
                // every planned deviation must have been delivered (its call index exists): otherwise the plan is stale
                let planned = plan.len();
                let got = run.injected_hard + run.injected_soft;
                if got < planned && run.result != "panic" && run.result != "abort" {
                    // a SHORT deviation on a 1-byte write is not observable; everything else must be delivered
                    let unobservable = plan.iter().filter(|p| p.contains("SHORT")).count();
                    if got + unobservable < planned {
                        col.machinery_error(format!("fault plan {:?} was not fully delivered (log {:?})", plan, run.log));
                        return;
                    }
                }
                if got > 0 {
                    delivered.fetch_add(1, Ordering::Relaxed);
                }
                col.eval(if got > 0 { Some(crate::util::fnv(format!("{}{}{}{:?}{:?}", kind, v, stale, plan, run.log).as_bytes())) } else { None });
                let file = std::fs::read(&path).ok();
                for (k, w) in judge(&run, file, &expected, &plan) {
                    col.violation((2, ti as u64), format!("C19/{}", k), format!("{} v{}{}: {}", kind, v, if stale { " (stale file present)" } else { "" }, w), json!({"kind": "fault", "target": kind, "version": v, "plan": plan, "stale_file": stale, "syscall_log": run.log}));
                }
                if plan.len() < max_dev {
                    // extend with a deviation at every call index at or after the last deviation seen in this run's log
                    let last_open = plan.iter().filter(|p| p.starts_with("open:")).filter_map(|p| p.split(':').nth(1)?.parse::<usize>().ok()).max().unwrap_or(0);
                    let last_write = plan.iter().filter(|p| p.starts_with("write:")).filter_map(|p| p.split(':').nth(1)?.parse::<usize>().ok()).max().unwrap_or(0);
                    for k in last_open + 1..=run.opens {
                        if last_write > 0 {
                            continue; // opens after the first write do not occur on this path
                        }
                        for f in OPEN_FAULTS {
                            let mut p = plan.clone();
                            p.push(format!("open:{}:{}", k, f));
                            fault_points.fetch_add(1, Ordering::Relaxed);
                            stack.push(p);
                        }
                    }
                    for k in last_write + 1..=run.writes {
                        for f in WRITE_FAULTS {
                            let mut p = plan.clone();
                            p.push(format!("write:{}:{}", k, f));
                            fault_points.fetch_add(1, Ordering::Relaxed);
                            stack.push(p);
                        }
                    }
                }
            }
        }
    });
    let _ = std::fs::remove_dir_all(&dir);
    col.set("child_runs", json!(runs.load(Ordering::Relaxed)));
    col.set("runs_with_a_delivered_fault", json!(delivered.load(Ordering::Relaxed)));
    col.set("fault_points", json!(fault_points.load(Ordering::Relaxed)));
    col.set("max_deviations", json!(max_dev));
    col.space(json!({"name": "fault sequences", "cases": runs.load(Ordering::Relaxed), "targets": targets.iter().map(|(k, v)| format!("{} v{}", k, v)).collect::<Vec<_>>(), "what": "5 real OS faults + all injected fault sequences of <= 2 deviations per target, each with and without a stale file", "exhaustive": true}));
    col.sample(json!({"kind": "fault", "target": "svg", "version": 1, "plan": ["write:1:SHORTHALF", "write:2:ENOSPC"], "stale_file": false}));
    col.sample(json!({"kind": "fault", "target": "png", "version": 10, "plan": ["open:1:EROFS"], "stale_file": true}));
    col
}
