//! C12: SVG output is well-formed and draws exactly the dark modules.
//! E2: breadth-first search over builder programs (model state hashed), every path replayed on a
//! fresh real SvgBuilder; plus complete sweeps (versions x shapes x margins, colours, image strings).

use crate::pool;
use crate::props::svgcheck::{self, SvgModel, SHAPES};
use crate::report::{Collector, Ctx};
use crate::spaces::{content, Family};
use crate::subject::{self, Opts, Outcome};
use fast_qr::convert::svg::SvgBuilder;
use fast_qr::convert::{Builder, Color};
use fast_qr::QRCode;
use serde_json::{json, Value};
use std::collections::HashSet;
use std::sync::atomic::{AtomicU64, Ordering};
use std::sync::Mutex;

#[derive(Clone, Debug, PartialEq)]
pub enum Op {
    Shape(usize),
    ShapeColor(usize, [u8; 4]),
    Margin(usize),
    ModuleColor([u8; 4]),
    Background([u8; 4]),
    Image(String),
    ImageBackground([u8; 4]),
    Frame(usize),
    ImageSize(f64),
    ImageGap(f64),
    ImagePosition(f64, f64),
}

impl Op {
    pub fn apply_real(&self, b: &mut SvgBuilder) {
        match self {
            Op::Shape(s) => {
                b.shape(SHAPES[*s]);
            }
            Op::ShapeColor(s, c) => {
                b.shape_color(SHAPES[*s], *c);
            }
            Op::Margin(m) => {
                b.margin(*m);
            }
            Op::ModuleColor(c) => {
                b.module_color(*c);
            }
            Op::Background(c) => {
                b.background_color(*c);
            }
            Op::Image(s) => {
                b.image(s.clone());
            }
            Op::ImageBackground(c) => {
                b.image_background_color(*c);
            }
            Op::Frame(f) => {
                b.image_background_shape(svgcheck::FRAMES[*f]);
            }
            Op::ImageSize(x) => {
                b.image_size(*x);
            }
            Op::ImageGap(x) => {
                b.image_gap(*x);
            }
            Op::ImagePosition(x, y) => {
                b.image_position(*x, *y);
            }
        }
    }
    pub fn apply_model(&self, m: &mut SvgModel) {
        match self {
            Op::Shape(s) => m.layers.push((*s, None)),
            Op::ShapeColor(s, c) => m.layers.push((*s, Some(*c))),
            Op::Margin(x) => m.margin = *x,
            Op::ModuleColor(c) => m.module_color = *c,
            Op::Background(c) => m.background = *c,
            Op::Image(s) => m.image = Some(s.clone()),
            Op::ImageBackground(c) => m.image_background = *c,
            Op::Frame(f) => m.frame = *f,
            Op::ImageSize(x) => m.image_size = Some(*x),
            Op::ImageGap(x) => m.image_gap = Some(*x),
            Op::ImagePosition(x, y) => m.image_position = Some((*x, *y)),
        }
    }
    pub fn to_json(&self) -> Value {
        match self {
            Op::Shape(s) => json!({"op": "shape", "shape": s}),
            Op::ShapeColor(s, c) => json!({"op": "shape_color", "shape": s, "color": c}),
            Op::Margin(m) => json!({"op": "margin", "margin": m}),
            Op::ModuleColor(c) => json!({"op": "module_color", "color": c}),
            Op::Background(c) => json!({"op": "background_color", "color": c}),
            Op::Image(s) => json!({"op": "image", "image": s}),
            Op::ImageBackground(c) => json!({"op": "image_background_color", "color": c}),
            Op::Frame(f) => json!({"op": "image_background_shape", "shape": f}),
            Op::ImageSize(x) => json!({"op": "image_size", "x": x}),
            Op::ImageGap(x) => json!({"op": "image_gap", "x": x}),
            Op::ImagePosition(x, y) => json!({"op": "image_position", "x": x, "y": y}),
        }
    }
    pub fn from_json(v: &Value) -> Option<Op> {
        let col = |v: &Value| -> Option<[u8; 4]> {
            let a = v.as_array()?;
            Some([a.first()?.as_u64()? as u8, a.get(1)?.as_u64()? as u8, a.get(2)?.as_u64()? as u8, a.get(3)?.as_u64()? as u8])
        };
        Some(match v.get("op")?.as_str()? {
            "shape" => Op::Shape(v.get("shape")?.as_u64()? as usize),
            "shape_color" => Op::ShapeColor(v.get("shape")?.as_u64()? as usize, col(v.get("color")?)?),
            "margin" => Op::Margin(v.get("margin")?.as_u64()? as usize),
            "module_color" => Op::ModuleColor(col(v.get("color")?)?),
            "background_color" => Op::Background(col(v.get("color")?)?),
            "image" => Op::Image(v.get("image")?.as_str()?.to_string()),
            "image_background_color" => Op::ImageBackground(col(v.get("color")?)?),
            "image_background_shape" => Op::Frame(v.get("shape")?.as_u64()? as usize),
            "image_size" => Op::ImageSize(v.get("x")?.as_f64()?),
            "image_gap" => Op::ImageGap(v.get("x")?.as_f64()?),
            "image_position" => Op::ImagePosition(v.get("x")?.as_f64()?, v.get("y")?.as_f64()?),
            _ => return None,
        })
    }
}

pub fn alphabet() -> Vec<Op> {
    let mut a = vec![];
    for s in 0..6 {
        a.push(Op::Shape(s));
    }
    for s in 0..6 {
        a.push(Op::ShapeColor(s, [255, 0, 0, 255]));
        a.push(Op::ShapeColor(s, [0, 0, 255, 128]));
    }
    // a layer explicitly given the colour the modules have by default, and one given the colour the module_color
    // operation below sets (an explicit layer colour must survive a later change of the module colour)
    a.push(Op::ShapeColor(1, [0, 0, 0, 255]));
    a.push(Op::ShapeColor(2, [0, 128, 0, 255]));
    // a layer in the colour the background has by default: on top of another layer it is visible, and in any case it
    // is a configured layer with one sub-path per dark module
    a.push(Op::ShapeColor(1, [255, 255, 255, 255]));
    for m in [0usize, 1, 4, 7] {
        a.push(Op::Margin(m));
    }
    a.push(Op::ModuleColor([0, 128, 0, 255]));
    a.push(Op::Background([255, 255, 0, 0]));
    a.push(Op::Image("https://example.com/logo.png?a=1&b=<2>\"'".to_string()));
    a.push(Op::ImageBackground([0, 0, 255, 64]));
    a.push(Op::Frame(1));
    a.push(Op::ImageSize(5.0));
    a.push(Op::ImageGap(0.5));
    a.push(Op::ImagePosition(10.0, 10.5));
    a
}

fn symbols() -> Vec<(String, Box<QRCode>)> {
    let mut v = vec![];
    for (name, input, o) in [
        ("v1", &b"HELLO"[..], Opts { mode: None, ecl: Some(0), version: Some(1), mask: None, order: 0 }),
        ("v2", &b"https://example.com/"[..], Opts { mode: None, ecl: Some(1), version: Some(2), mask: None, order: 0 }),
    ] {
        if let Outcome::Ok(q) = subject::build(input, &o) {
            v.push((name.to_string(), q));
        }
    }
    v
}

type Sig = Vec<(i64, i64, i64, i64, i64, i64, usize, bool)>;

/// geometry of one layer: per sub-path (start point, bounding box, number of segments, closed), sorted
fn layer_signature(d: &str) -> Option<Sig> {
    let subs = crate::parse::svgpath::subpaths(d).ok()?;
    let r = |x: f64| (x * 1000.0).round() as i64;
    let mut v: Sig = subs.iter().map(|s| (r(s.start.0), r(s.start.1), r(s.minx), r(s.miny), r(s.maxx), r(s.maxy), s.segments, s.closed)).collect();
    v.sort();
    Some(v)
}

fn path_ds(doc: &str) -> Option<Vec<String>> {
    let root = crate::parse::xml::parse(doc).ok()?;
    Some(root.children.iter().filter(|c| c.name == "path").filter_map(|c| c.attr("d").map(|d| d.to_string())).collect())
}

/// what a builder configured with this shape alone (default colour) draws for this symbol and margin
fn reference_layer(q: &QRCode, qd: u64, margin: usize, shape: usize) -> Option<std::sync::Arc<Sig>> {
    use std::collections::HashMap;
    use std::sync::{Arc, Mutex, OnceLock};
    static CACHE: OnceLock<Mutex<HashMap<(u64, usize, usize), Option<Arc<Sig>>>>> = OnceLock::new();
    let cache = CACHE.get_or_init(|| Mutex::new(HashMap::new()));
    if let Some(v) = cache.lock().unwrap().get(&(qd, margin, shape)) {
        return v.clone();
    }
    let sig = subject::guarded(|| {
        let mut b = SvgBuilder::default();
        b.margin(margin).shape(svgcheck::SHAPES[shape]);
        b.to_str(q)
    })
    .ok()
    .and_then(|doc| path_ds(&doc))
    .and_then(|ds| if ds.len() == 1 { layer_signature(&ds[0]) } else { None })
    .map(Arc::new);
    cache.lock().unwrap().insert((qd, margin, shape), sig.clone());
    sig
}

/// every configured layer draws what its shape draws when configured alone (same symbol, same margin): the shape of
/// a layer does not depend on the layers around it
fn check_layer_shapes(doc: &str, q: &QRCode, model: &SvgModel) -> Vec<(String, String)> {
    let mut out = vec![];
    if model.layers.is_empty() || (model.layers.len() == 1 && model.layers[0].1.is_none()) {
        return out;
    }
    let ds = match path_ds(doc) {
        Some(d) if d.len() == model.layers.len() => d,
        _ => return out, // reported by the structural check
    };
    let qd = subject::digest(q);
    for (li, (d, (shape, _))) in ds.iter().zip(model.layers.iter()).enumerate() {
        let (got, want) = match (layer_signature(d), reference_layer(q, qd, model.margin, *shape)) {
            (Some(g), Some(w)) => (g, w),
            _ => continue,
        };
        if got != *want {
            out.push(("layer-shape".into(), format!("layer {} is configured as {} but its sub-paths are not those a builder configured with {} alone draws for this symbol and margin ({} sub-paths against {}; layers {:?})", li, svgcheck::SHAPE_NAMES[*shape], svgcheck::SHAPE_NAMES[*shape], got.len(), want.len(), model.layers.iter().map(|l| svgcheck::SHAPE_NAMES[l.0]).collect::<Vec<_>>())));
            break;
        }
    }
    out
}

/// renders a program on a fresh real builder; returns findings
pub fn run_program(prog: &[Op], q: &QRCode) -> (Vec<(String, String)>, Option<u64>, SvgModel) {
    let mut model = SvgModel::default();
    for op in prog {
        op.apply_model(&mut model);
    }
    let res = subject::guarded(|| {
        let mut b = SvgBuilder::default();
        for op in prog {
            op.apply_real(&mut b);
        }
        b.to_str(q)
    });
    match res {
        Ok(doc) => {
            let n = q.size;
            let vals = subject::values(q);
            let (mut f, _) = svgcheck::check_svg(&doc, &vals, n, &model);
            if f.is_empty() {
                f.extend(check_layer_shapes(&doc, q, &model));
            }
            (f, Some(crate::util::fnv(doc.as_bytes())), model)
        }
        Err(msg) => (vec![("panic".into(), format!("SvgBuilder panicked: {}", msg))], None, model),
    }
}

pub fn program_case(prog: &[Op], sym: &str) -> Value {
    json!({"kind": "svg-program", "symbol": sym, "program": prog.iter().map(|o| o.to_json()).collect::<Vec<_>>()})
}

pub fn replay(case: &Value) -> Result<Vec<(String, String)>, String> {
    let kind = case.get("kind").and_then(|k| k.as_str()).unwrap_or("");
    match kind {
        "svg-program" => {
            let sym = case.get("symbol").and_then(|s| s.as_str()).ok_or("no symbol")?;
            let prog: Vec<Op> = case.get("program").and_then(|p| p.as_array()).ok_or("no program")?.iter().map(Op::from_json).collect::<Option<Vec<_>>>().ok_or("bad op")?;
            let syms = symbols();
            let q = &syms.iter().find(|(n, _)| n == sym).ok_or("unknown symbol")?.1;
            let (f, _, _) = run_program(&prog, q);
            Ok(f.into_iter().map(|(k, w)| (format!("C12/{}", k), w)).collect())
        }
        "svg-sweep" => {
            let v = case.get("version").and_then(|x| x.as_u64()).ok_or("version")? as usize;
            let s = case.get("shape").and_then(|x| x.as_u64()).ok_or("shape")? as usize;
            let m = case.get("margin").and_then(|x| x.as_u64()).ok_or("margin")? as usize;
            let q = sweep_symbol(v).ok_or("build failed")?;
            let (f, _, _) = run_program(&[Op::Shape(s), Op::Margin(m)], &q);
            Ok(f.into_iter().map(|(k, w)| (format!("C12/{}", k), w)).collect())
        }
        "svg-layers" => {
            let v = case.get("version").and_then(|x| x.as_u64()).ok_or("version")? as usize;
            let prog: Vec<Op> = case.get("program").and_then(|p| p.as_array()).ok_or("no program")?.iter().map(Op::from_json).collect::<Option<Vec<_>>>().ok_or("bad op")?;
            let q = sweep_symbol(v).ok_or("build failed")?;
            let (f, _, _) = run_program(&prog, &q);
            Ok(f.into_iter().map(|(k, w)| (format!("C12/{}", k), w)).collect())
        }
        "svg-image-long" => {
            let len = case.get("length").and_then(|x| x.as_u64()).ok_or("length")? as usize;
            let variant = case.get("variant").and_then(|x| x.as_u64()).ok_or("variant")? as usize;
            let syms = symbols();
            let (f, _, _) = run_program(&[Op::Image(long_image(len, variant)), Op::ImagePosition(10.0, 10.5)], &syms[1].1);
            Ok(f.into_iter().map(|(k, w)| (format!("C12/{}", k), w)).collect())
        }
        "svg-image" => {
            let s = case.get("image").and_then(|x| x.as_str()).ok_or("image")?;
            let syms = symbols();
            let (f, _, _) = run_program(&[Op::Image(s.to_string())], &syms[0].1);
            Ok(f.into_iter().map(|(k, w)| (format!("C12/{}", k), w)).collect())
        }
        "svg-colour" => {
            let a = case.get("color").and_then(|x| x.as_array()).ok_or("color")?;
            let c = [a[0].as_u64().unwrap() as u8, a[1].as_u64().unwrap() as u8, a[2].as_u64().unwrap() as u8, a[3].as_u64().unwrap() as u8];
            Ok(colour_routes(c).into_iter().map(|w| ("C12/colour-format".to_string(), w)).collect())
        }
        _ => Err(format!("unknown case kind {}", kind)),
    }
}

/// a data URI of exactly `len` bytes; variant 1: '&' in the middle and '<' as the last character; variant 2: a double
/// quote every 1000 characters
fn long_image(len: usize, variant: usize) -> String {
    let head = "data:image/png;base64,";
    let mut b: Vec<u8> = head.bytes().collect();
    let alphabet = b"ABCDEFGHIJKLMNOPQRSTUVWXYZabcdefghijklmnopqrstuvwxyz0123456789+/";
    while b.len() < len {
        b.push(alphabet[(b.len() * 7 + b.len() / 64) % 64]);
    }
    b.truncate(len.max(head.len()));
    let n = b.len();
    match variant {
        1 => {
            b[n / 2] = b'&';
            b[n - 1] = b'<';
        }
        2 => {
            let mut i = 999;
            while i < n {
                b[i] = b'"';
                i += 1000;
            }
        }
        _ => {}
    }
    String::from_utf8(b).unwrap()
}

fn sweep_symbol(v: usize) -> Option<Box<QRCode>> {
    let input = content(Family::Ctr, 2, crate::refmodel::cap(v, 1, 2));
    match subject::build(&input, &Opts { mode: Some(2), ecl: Some(1), version: Some(v as u8), mask: None, order: 0 }) {
        Outcome::Ok(q) => Some(q),
        _ => None,
    }
}

/// all conversion routes into Color for one RGBA value; returns descriptions of mismatches
fn colour_routes(c: [u8; 4]) -> Vec<String> {
    let mut bad = vec![];
    let want = svgcheck::hex(c);
    let mut chk = |route: &str, got: Result<String, String>, want: &str| match got {
        Ok(g) if g.eq_ignore_ascii_case(want) => {}
        Ok(g) => bad.push(format!("{:?} via {} renders as {:?}, expected {}", c, route, g, want)),
        Err(m) => bad.push(format!("{:?} via {} panicked: {}", c, route, m)),
    };
    chk("[u8;4]", subject::guarded(|| Color::from(c).to_str().to_string()), &want);
    chk("&[u8] (4)", subject::guarded(|| Color::from(&c[..]).to_str().to_string()), &want);
    chk("Vec<u8> (4)", subject::guarded(|| Color::from(c.to_vec()).to_str().to_string()), &want);
    if c[3] == 255 {
        let c3 = [c[0], c[1], c[2]];
        chk("[u8;3]", subject::guarded(|| Color::from(c3).to_str().to_string()), &want);
        chk("&[u8] (3)", subject::guarded(|| Color::from(&c3[..]).to_str().to_string()), &want);
        chk("Vec<u8> (3)", subject::guarded(|| Color::from(c3.to_vec()).to_str().to_string()), &want);
    }
    bad
}

pub fn run(ctx: &Ctx) -> Collector {
    let col = Collector::new("C12", "model_checking");
    col.set_rule("E2: breadth-first search over ALL SvgBuilder programs up to depth D (quick 3, thorough 4) over a 33-operation alphabet {shape x6, shape_color x6x2 + 3 with the default / the later module colour / the default background colour, margin x4, module_color, background_color, image(with & < > \" '), image_background_color, image_background_shape, image_size, image_gap, image_position}; model state = (layer list, margin, module colour, background, image) hashed and counted; every program (path) is replayed on a fresh real SvgBuilder and rendered on a v1 and a v2 symbol; oracle: own strict XML parser accepts the document; square viewBox/background of side size+2*margin in the background colour; one <path> per layer in order with the layer's colour; own path interpreter puts the sub-paths in bijection with the dark modules (centre inside the unit cell anchored at (col+margin,row+margin), box within the cell grown by 0.1, none on light modules or quiet zone); every layer's sub-paths (start point, bounding box, segment count) equal those a builder configured with that shape alone draws for the same symbol and margin; one <image> whose entity-decoded href equals the configured string. Sweeps: 40 versions x 6 shapes x 4 margins; 3 to 8 layers on versions 20/30/40 (documents of several MB); colour formatting (all 4x256 single-channel values and the 8^4 edge grid through every conversion route); image strings: all 820 strings of length <= 3 over {a & < > \" ' space ; #} + realistic URLs/data URIs/paths; data URIs of 2 KB to 1 MB; non-trivial = a document was rendered; distinct = distinct documents");
    col.assume("custom Shape::Command callbacks and colours given as arbitrary strings are outside the quantifier as written; not explored");
    col.assume("geometry is judged on bounding boxes of flattened sub-paths (own interpreter), not on path syntax or emission order");
    let thorough = ctx.tier.thorough();
    let depth = if thorough { 4 } else { 3 };
    let alpha = alphabet();
    let syms = symbols();
    if syms.len() != 2 {
        col.machinery_error("could not build the two symbols the programs are rendered on".into());
        return col;
    }
    // ---- E2 search
    let t0 = std::time::Instant::now();
    let states: Mutex<HashSet<String>> = Mutex::new(HashSet::new());
    let transitions = AtomicU64::new(0);
    let traces = AtomicU64::new(0);
    states.lock().unwrap().insert(SvgModel::default().key());
    // enumerate programs level by level; programs of depth d = alpha^d, indexable
    let mut total_programs = 0u64;
    for d in 0..=depth {
        let count = alpha.len().pow(d as u32);
        total_programs += count as u64;
        pool::par_for(count, |idx| {
            let mut prog = Vec::with_capacity(d);
            let mut x = idx;
            for _ in 0..d {
                prog.push(alpha[x % alpha.len()].clone());
                x /= alpha.len();
            }
            prog.reverse();
            let mut model_key = None;
            for (sname, q) in &syms {
                let (f, digest, model) = run_program(&prog, q);
                col.eval(digest);
                traces.fetch_add(1, Ordering::Relaxed);
                for (k, w) in f {
                    col.violation((d as u64, idx as u64), format!("C12/{}", k), format!("program of {} call(s) on {}: {}", d, sname, w), program_case(&prog, sname));
                }
                model_key = Some(model.key());
            }
            if d > 0 {
                transitions.fetch_add(1, Ordering::Relaxed);
            }
            if let Some(k) = model_key {
                // model states are only inserted by one worker per program; a short lock
                let mut st = states.lock().unwrap();
                if !st.contains(&k) {
                    st.insert(k);
                }
            }
        });
    }
    let nstates = states.lock().unwrap().len() as u64;
    col.set("states", json!(nstates));
    col.set("transitions", json!(transitions.load(Ordering::Relaxed)));
    col.set("traces_validated_against_impl", json!(traces.load(Ordering::Relaxed)));
    col.set("programs", json!(total_programs));
    col.set("search_depth_completed", json!(depth));
    col.space(json!({"name": "E2 builder programs", "cases": total_programs * 2, "programs": total_programs, "depth": depth, "alphabet": alpha.len(), "model_states": nstates, "what": "every call sequence up to the depth, each replayed on a fresh real SvgBuilder on 2 symbols", "exhaustive": true, "wall_s": (t0.elapsed().as_secs_f64() * 100.0).round() / 100.0}));
    col.sample(program_case(&[alpha[1].clone(), alpha[7].clone(), alpha[18].clone()], "v1"));
    col.sample(program_case(&[alpha[24].clone(), alpha[23].clone()], "v2"));

    // ---- sweep: all versions x shapes x margins
    let t1 = std::time::Instant::now();
    let margins = [0usize, 1, 4, 16];
    let qs: Vec<Option<Box<QRCode>>> = (1..=40).map(sweep_symbol).collect();
    let mut cases = vec![];
    for v in 1..=40usize {
        for s in 0..6usize {
            for &m in &margins {
                cases.push((v, s, m));
            }
        }
        // wide quiet zones: coordinates beyond 255 and beyond 1000 (narrow integer types, fixed-width formatting)
        for &m in &[79usize, 100, 255, 300, 1000] {
            cases.push((v, v % 6, m));
        }
    }
    pool::par_for(cases.len(), |i| {
        let (v, s, m) = cases[i];
        match &qs[v - 1] {
            Some(q) => {
                let (f, digest, _) = run_program(&[Op::Shape(s), Op::Margin(m)], q);
                col.eval(digest);
                for (k, w) in f {
                    col.violation((10, i as u64), format!("C12/{}", k), format!("v{} shape {} margin {}: {}", v, svgcheck::SHAPE_NAMES[s], m, w), json!({"kind": "svg-sweep", "version": v, "shape": s, "margin": m}));
                }
            }
            None => {
                col.eval(None);
                col.skipped_panic();
            }
        }
    });
    col.space(json!({"name": "versions x shapes x margins", "cases": cases.len(), "what": "all 40 versions (byte payload at level-M capacity) x 6 built-in shapes x margins {0,1,4,16}, and margins {79,100,255,300,1000} with one shape per version, single layer", "exhaustive": true, "wall_s": (t1.elapsed().as_secs_f64() * 100.0).round() / 100.0}));
    col.sample(json!({"kind": "svg-sweep", "version": 40, "shape": 1, "margin": 16}));

    // ---- many layers on large symbols (documents of 1 MB and more)
    let t1c = std::time::Instant::now();
    let layer_lists: Vec<Vec<usize>> = vec![vec![0, 1, 5, 2], vec![0, 1, 2, 3, 4, 5], vec![5, 4, 3, 2, 1, 0, 5, 0], vec![1, 0, 1], vec![2, 3, 2, 4, 3]];
    let big_versions: Vec<usize> = if thorough { vec![10, 20, 25, 30, 35, 40] } else { vec![20, 30, 40] };
    let mut big = vec![];
    for &v in &big_versions {
        for ll in &layer_lists {
            for m in [0usize, 4] {
                big.push((v, ll.clone(), m));
            }
        }
    }
    pool::par_for(big.len(), |i| {
        let (v, ll, m) = &big[i];
        match &qs[*v - 1] {
            Some(q) => {
                let mut prog: Vec<Op> = ll.iter().enumerate().map(|(j, &s)| if j % 2 == 1 { Op::ShapeColor(s, [255, 0, 0, 255]) } else { Op::Shape(s) }).collect();
                prog.push(Op::Margin(*m));
                let (f, digest, _) = run_program(&prog, q);
                col.eval(digest);
                for (k, w) in f {
                    col.violation((12, i as u64), format!("C12/{}", k), format!("v{} layers {:?} margin {}: {}", v, ll, m, w), json!({"kind": "svg-layers", "version": v, "program": prog.iter().map(|o| o.to_json()).collect::<Vec<_>>()}));
                }
            }
            None => {
                col.eval(None);
                col.skipped_panic();
            }
        }
    });
    col.space(json!({"name": "many layers on large symbols", "cases": big.len(), "what": format!("versions {:?} x 5 layer lists of 3 to 8 layers (every second one with its own colour; repeats with another shape in between) x margins {{0, 4}}: documents up to several MB", big_versions), "exhaustive": true, "wall_s": (t1c.elapsed().as_secs_f64() * 100.0).round() / 100.0}));

    // ---- synthetic matrices (QRCode::default(size) + set): blank rows and columns, isolated modules, full rows
    let t1b = std::time::Instant::now();
    let mut syn: Vec<(usize, &str, usize)> = vec![];
    for &n in &[21usize, 25, 45, 177] {
        for name in ["all-light", "all-dark", "checkerboard", "even-rows", "odd-rows", "even-cols", "odd-cols", "last-row", "first-col", "diagonal", "row-7-blank"] {
            for s in 0..6usize {
                syn.push((n, name, s));
            }
        }
    }
    let nsyn = std::sync::atomic::AtomicU64::new(0);
    let pat = |name: &str, n: usize, r: usize, c: usize| -> bool {
        match name {
            "all-light" => false,
            "all-dark" => true,
            "checkerboard" => (r + c) % 2 == 0,
            "even-rows" => r % 2 == 0,
            "odd-rows" => r % 2 == 1,
            "even-cols" => c % 2 == 0,
            "odd-cols" => c % 2 == 1,
            "last-row" => r == n - 1,
            "first-col" => c == 0,
            "diagonal" => r == c,
            _ => r != 7 && (r * 3 + c) % 4 != 1,
        }
    };
    pool::par_for(syn.len() + 21 * 21 * 2, |i| {
        let (n, name, s, single) = if i < syn.len() { (syn[i].0, syn[i].1, syn[i].2, None) } else { (21, "single-module", (i - syn.len()) % 2, Some((i - syn.len()) / 2)) };
        let mut q = Box::new(QRCode::default(n));
        for r in 0..n {
            for c in 0..n {
                let v = match single {
                    Some(k) => r * n + c == k,
                    None => pat(name, n, r, c),
                };
                q.data[r * n + c].set(v);
            }
        }
        nsyn.fetch_add(1, std::sync::atomic::Ordering::Relaxed);
        let (f, digest, _) = run_program(&[Op::Shape(s), Op::Margin(2)], &q);
        col.eval(digest);
        for (k, w) in f {
            col.violation((11, i as u64), format!("C12/{}", k), format!("synthetic {} matrix of side {} shape {}{}: {}", name, n, svgcheck::SHAPE_NAMES[s], single.map(|k| format!(" (module {})", k)).unwrap_or_default(), w), json!({"kind": "svg-synthetic", "size": n, "pattern": name, "shape": s, "single": single}));
        }
    });
    col.space(json!({"name": "synthetic matrices", "cases": nsyn.load(std::sync::atomic::Ordering::Relaxed), "what": "sides {21,25,45,177} x 11 patterns (all-light, all-dark, checkerboard, row/column stripes, last row, first column, diagonal, a pattern with a blank row 7) x 6 shapes, and every single-module matrix of side 21 in 2 shapes", "exhaustive": true, "wall_s": (t1b.elapsed().as_secs_f64() * 100.0).round() / 100.0}));

    // ---- colour formatting
    let mut colours: Vec<[u8; 4]> = vec![];
    for ch in 0..4 {
        for val in 0..=255u8 {
            let mut c = [17, 34, 51, 255];
            c[ch] = val;
            colours.push(c);
        }
    }
    let edge = [0u8, 1, 15, 16, 127, 128, 254, 255];
    for &a in &edge {
        for &b in &edge {
            for &c in &edge {
                for &d in &edge {
                    colours.push([a, b, c, d]);
                }
            }
        }
    }
    pool::par_for(colours.len(), |i| {
        let c = colours[i];
        let bad = colour_routes(c);
        col.eval(Some(crate::util::fnv(&c)));
        for w in bad {
            col.violation((20, i as u64), "C12/colour-format".into(), w, json!({"kind": "svg-colour", "color": c}));
        }
        // and through the document for the single-channel sweep
        if i < 1024 {
            let (f, _, _) = run_program(&[Op::ModuleColor(c), Op::Background([c[3], c[2], c[1], c[0]])], &syms[0].1);
            for (k, w) in f {
                col.violation((21, i as u64), format!("C12/{}", k), w, program_case(&[Op::ModuleColor(c), Op::Background([c[3], c[2], c[1], c[0]])], "v1"));
            }
        }
    });
    col.space(json!({"name": "colour formatting", "cases": colours.len(), "what": "all 4x256 single-channel values and the 8^4 grid of edge values through [u8;4], [u8;3], &[u8], Vec<u8>; single-channel sweep also through the rendered document", "exhaustive": true}));

    // ---- image strings
    let al = ['a', '&', '<', '>', '"', '\'', ' ', ';', '#', '\u{e9}', '\u{1F600}', '{', '}', '0'];
    let mut strings: Vec<String> = vec![String::new()];
    for a in al {
        strings.push(a.to_string());
        for b in al {
            strings.push([a, b].iter().collect());
            for c in al {
                strings.push([a, b, c].iter().collect());
            }
        }
    }
    let n_short = strings.len();
    // the same short strings inside realistic contexts (a scheme or path in front, an extension behind, a long
    // run in front): escaping must not depend on what the string looks like or how long it is
    let shorts: Vec<String> = strings.clone();
    let contexts: [(&str, &str); 7] = [("data:", ""), ("data:image/svg+xml;utf8,", ""), ("https://example.com/", ".png"), ("./", ""), ("#", ""), ("", ".svg"), ("", "")];
    for (ci, (pre, post)) in contexts.iter().enumerate() {
        for t in &shorts {
            if ci == contexts.len() - 1 {
                // last context: a 300-character run in front (length-dependent handling)
                strings.push(format!("{}{}", "x".repeat(300), t));
            } else {
                strings.push(format!("{}{}{}", pre, t, post));
            }
        }
    }
    let n_short = strings.len() - n_short + n_short;
    for s in [
        "https://example.com/logo.png",
        "https://example.com/i?a=1&b=2",
        "https://example.com/i?a=1&amp;b=2",
        "./assets/logo.svg",
        "C:\\images\\logo.png",
        "data:image/png;base64,iVBORw0KGgoAAAANSUhEUgAAAAEAAAABCAQAAAC1HAwCAAAAC0lEQVR42mNkYAAAAAYAAjCB0C8AAAAASUVORK5CYII=",
        "data:image/svg+xml;utf8,<svg xmlns='http://www.w3.org/2000/svg'><rect width=\"1\" height=\"1\"/></svg>",
        "file name with spaces & ampersand.png",
        "\"/><script>alert(1)</script><image href=\"",
        "&#60;&lt;",
        "caf\u{e9}/\u{1F600}.png",
        "]]>",
    ] {
        strings.push(s.to_string());
    }
    pool::par_for(strings.len(), |i| {
        let s = &strings[i];
        let (f, digest, _) = run_program(&[Op::Image(s.clone())], &syms[0].1);
        col.eval(digest);
        for (k, w) in f {
            col.violation((30, i as u64), format!("C12/{}", k), format!("image string {:?}: {}", s, w), json!({"kind": "svg-image", "image": s}));
        }
    });
    // long image strings (what an embedded logo really is): the href must still be the string, wherever its special
    // characters are, and the rest of the document must not change with the length
    let long_cases: Vec<(usize, usize)> = [2047usize, 2048, 2049, 4096, 65535, 65536, 300_000, 1 << 20].iter().flat_map(|&l| (0..3usize).map(move |v| (l, v))).collect();
    pool::par_for(long_cases.len(), |i| {
        let (len, variant) = long_cases[i];
        let img = long_image(len, variant);
        let (f, digest, _) = run_program(&[Op::Image(img), Op::ImagePosition(10.0, 10.5)], &syms[1].1);
        col.eval(digest);
        for (k, w) in f {
            col.violation((31, i as u64), format!("C12/{}", k), format!("image string of {} bytes (variant {}): {}", len, variant, w), json!({"kind": "svg-image-long", "length": len, "variant": variant}));
        }
    });
    col.space(json!({"name": "long image strings", "cases": long_cases.len(), "what": "data URIs of 2047, 2048, 2049, 4096, 65535, 65536, 300 000 and 2^20 bytes x {plain, an ampersand in the middle and a '<' as last character, a quote every 1000 characters}, with an explicit image position", "exhaustive": true}));
    col.space(json!({"name": "image strings", "cases": strings.len(), "what": format!("all 2954 strings of length <= 3 over {{a & < > \" ' space ; # e-acute U+1F600 {{ }} 0}}, alone and inside 7 contexts (data:, data:image/svg+xml;utf8, URL + extension, ./, #, extension only, a 300-character run in front) = {} strings, + {} realistic URLs, data URIs, paths and injection attempts", n_short, strings.len() - n_short), "exhaustive": true}));
    col.sample(json!({"kind": "svg-image", "image": "a&<"}));
    col
}
