//! C01-C06, C09, C10, C15: E1 sweeps through the core oracle

use crate::core::{Finding};
use crate::refmodel as r;
use crate::report::{Collector, Ctx};
use crate::spaces::{self, Case, Family, Space};
use crate::subject::{Opts, Outcome};
use crate::sweep::{no_extra, run_histories, run_space};

const A_LOCAL: &str = "A-LOCAL: payload content is covered by structured families over every length plus the complete per-group value x bit-alignment enumeration (S_group) plus every input of <= 2 bytes jointly (S_small); two payload symbols interacting other than through their own packing group, the XOR-linear EC computation or mask selection would escape";
const A_REF: &str = "reference model R (harness/src/refmodel.rs) is written from ISO/IEC 18004 independently of fast_qr; validated at setup against the unrelated `qrcode` crate and by its own enc/dec round trip (fqv selfcheck)";

fn families(ctx: &Ctx) -> Vec<Family> {
    let mut f = vec![Family::Ctr];
    if ctx.tier.thorough() {
        f.extend([Family::Lo, Family::Hi, Family::Pad]);
    }
    f
}

fn common(col: &Collector) {
    col.assume(A_REF);
    col.assume(A_LOCAL);
}

fn seeded_supplement(ctx: &Ctx, col: &Collector, idx: u64, props: &[&str], skip: bool) {
    // supplementary only: one pseudo-random family selected by VERIF_SEED over a thinned length set; reported separately
    let mut sp = spaces::s_len(Family::Seeded(ctx.seed), 7200);
    let step = if ctx.tier.thorough() { 7 } else { 61 };
    sp.cases = sp.cases.into_iter().enumerate().filter(|(i, _)| i % step == 0).map(|(_, c)| c).collect();
    sp.name = format!("supplementary {}", sp.name);
    sp.describe = format!("SUPPLEMENTARY (sampled, not part of the exhaustive claim): every {}th point of S_len with xorshift(VERIF_SEED={}) content", step, ctx.seed);
    // does not alter the exhaustive flag of the deciding spaces
    let was = *col.exhaustive.lock().unwrap();
    sp.exhaustive = true;
    run_space(col, idx, &sp, props, skip, &no_extra);
    *col.exhaustive.lock().unwrap() = was;
}

pub fn c01(ctx: &Ctx) -> Collector {
    let col = Collector::new("C01", "exploration");
    col.set_rule("cases = complete products S_len (every length x mode x level), S_cell (every forced version/level/mask/mode cell at boundary lengths), S_opt (option-presence lattice), S_group (every packing group x alignment), S_small (every input of <= 2 bytes); each case is one real build decoded by the reference decoder (format info, unmask, zig-zag read-out, de-interleave, RS error correction, segment parse) and compared byte for byte with the input; non-trivial = a symbol was returned; distinct = distinct symbol matrices (digest of all module bytes)");
    common(&col);
    let p = ["C01"];
    let mut i = 0;
    for f in families(ctx) {
        run_space(&col, i, &spaces::s_len_tier(f, 7200, ctx.tier.thorough()), &p, true, &no_extra);
        i += 1;
    }
    run_space(&col, 10, &spaces::s_cell(ctx.tier.thorough()), &p, true, &no_extra);
    run_space(&col, 11, &spaces::s_opt(ctx.tier.thorough()), &p, true, &no_extra);
    run_space(&col, 12, &spaces::s_group(ctx.tier.thorough()), &p, true, &no_extra);
    run_space(&col, 13, &spaces::s_small(if ctx.tier.thorough() { &[None, Some(0)] } else { &[None] }, ctx.tier.thorough()), &p, true, &no_extra);
    run_space(&col, 14, &spaces::s_cap_families(ctx.tier.thorough()), &p, true, &no_extra);
    run_space(&col, 15, &spaces::s_cross(ctx.tier.thorough()), &p, true, &no_extra);
    run_space(&col, 16, &spaces::s_pair_ctx(ctx.tier.thorough()), &p, true, &no_extra);
    run_space(&col, 17, &spaces::s_order(ctx.tier.thorough()), &p, true, &no_extra);
    run_space(&col, 18, &s_len_utf8(ctx.tier.thorough()), &p, true, &no_extra);
    run_space(&col, 19, &spaces::s_forced_dense(ctx.tier.thorough()), &p, true, &no_extra);
    run_space(&col, 20, &s_counts(), &p, true, &no_extra);
    run_space(&col, 61, &s_runs(), &p, true, &no_extra);
    // automatic mode on long strings with one character of another class at every position, and on two-run strings: a
    // detection slip that still yields a symbol shows as a payload that decodes to something else
    run_space(&col, 64, &s_long_auto(ctx.tier.thorough()), &p, true, &no_extra);
    run_space(&col, 66, &s_edges(ctx.tier.thorough()), &p, true, &no_extra);
    run_space(&col, 65, &s_mixed_auto(if ctx.tier.thorough() { 64 } else { 48 }, ctx.tier.thorough()), &p, true, &no_extra);
    run_histories(&col, 22, &p, ctx.tier.thorough());
    run_space(&col, 23, &spaces::s_antimask(ctx.tier.thorough()), &p, true, &no_extra);
    run_space(&col, 24, &s_corpus(), &p, true, &no_extra);
    run_space(&col, 26, &spaces::s_cw(ctx.tier.thorough()), &p, true, &no_extra);
    if !ctx.tier.thorough() {
        run_space(&col, 25, &s_forced_versions(false), &p, true, &no_extra);
    }
    if ctx.tier.thorough() {
        // the complete (length x forced version) triangle of C05, judged here for this property
        run_space(&col, 21, &s_forced_versions(true), &p, true, &no_extra);
    }
    seeded_supplement(ctx, &col, 20, &p, true);
    col
}

pub fn c02(ctx: &Ctx) -> Collector {
    let col = Collector::new("C02", "exploration");
    col.set_rule("cases = S_len and S_cell builds (every (version, level) with many payloads and all masks) whose codeword sequence is read back, split by Table 9 in the standard interleave order and checked for zero syndromes at alpha^0..alpha^(ec-1) with a bitwise GF(256) (no tables), plus remainder bits; corruption corollary: exhaustive subsets of <= floor(ec/2) corrupted codewords on version 1 (all four levels, caps stated) and structured patterns on all other pairs, decoded by R's Berlekamp-Massey decoder; non-trivial = a symbol was returned / a corrupted block was decoded; distinct = distinct symbol matrices or (block, error pattern) pairs");
    common(&col);
    let p = ["C02"];
    let mut i = 0;
    for f in families(ctx) {
        run_space(&col, i, &spaces::s_len_tier(f, 7200, ctx.tier.thorough()), &p, true, &no_extra);
        i += 1;
    }
    run_space(&col, 10, &spaces::s_cell(ctx.tier.thorough()), &p, true, &no_extra);
    run_space(&col, 11, &spaces::s_cap_families(ctx.tier.thorough()), &p, true, &no_extra);
    run_space(&col, 12, &spaces::s_forced_dense(ctx.tier.thorough()), &p, true, &no_extra);
    run_histories(&col, 13, &p, ctx.tier.thorough());
    run_space(&col, 14, &spaces::s_antimask(ctx.tier.thorough()), &p, true, &no_extra);
    run_space(&col, 15, &spaces::s_cw(ctx.tier.thorough()), &p, true, &no_extra);
    crate::props::c02x::corruption(ctx, &col);
    col
}

/// a returned symbol must survive being copied: clone() and clone_from() into a smaller and into a larger
/// existing symbol give a value with the same modules (inside and outside the square), size and fields
fn c03_extra(_case: &Case, _input: &[u8], out: &Outcome) -> Vec<Finding> {
    let mut f = vec![];
    if let Outcome::Ok(q) = out {
        let want = crate::subject::digest(q);
        let r = crate::subject::guarded(|| {
            let a = crate::subject::digest(&q.clone());
            let mut small = Box::new(fast_qr::QRCode::default(21));
            small.clone_from(q);
            let mut large = Box::new(fast_qr::QRCode::default(177));
            for m in large.data.iter_mut().take(177 * 177).skip(3) {
                m.set(true);
            }
            large.clone_from(q);
            (a, crate::subject::digest(&small), crate::subject::digest(&large))
        });
        match r {
            Ok((a, b, c)) => {
                if a != want {
                    f.push(Finding { prop: "C03", key: "C03/clone-differs".into(), what: "clone() of the returned symbol differs from it (modules, size or fields)".into() });
                }
                if b != want {
                    f.push(Finding { prop: "C03", key: "C03/clone-from-into-smaller-differs".into(), what: "clone_from() into a smaller existing symbol gives a symbol that differs from the source".into() });
                }
                if c != want {
                    f.push(Finding { prop: "C03", key: "C03/clone-from-into-larger-differs".into(), what: "clone_from() into a larger, all-dark existing symbol gives a symbol that differs from the source (stale modules)".into() });
                }
            }
            Err(m) => f.push(Finding { prop: "C03", key: "C03/clone-panic".into(), what: format!("copying the returned symbol panicked: {}", m) }),
        }
    }
    f
}

pub fn c03(ctx: &Ctx) -> Collector {
    let col = Collector::new("C03", "exploration");
    col.set_rule("cases = S_cell (all 40 versions x 4 levels x 8 masks x 3 modes, several payload lengths) and S_opt; oracle at every coordinate of every returned matrix: finder, separator, timing, alignment (Annex E centres computed by rule), dark module equal R's computed geometry; side = 17+4v; the tail data[size*size..177*177] equals the default module; non-trivial = a symbol was returned; distinct = distinct symbol matrices");
    col.assume(A_REF);
    let p = ["C03"];
    run_space(&col, 0, &spaces::s_cell(ctx.tier.thorough()), &p, true, &c03_extra);
    run_space(&col, 1, &spaces::s_opt(ctx.tier.thorough()), &p, true, &no_extra);
    run_space(&col, 2, &spaces::s_len(Family::Ctr, if ctx.tier.thorough() { 7200 } else { 0 }), &p, true, &no_extra);
    run_histories(&col, 4, &p, ctx.tier.thorough());
    run_space(&col, 5, &spaces::s_cap_families(ctx.tier.thorough()), &p, true, &no_extra);
    if ctx.tier.thorough() {
        run_space(&col, 3, &spaces::s_len(Family::Hi, 7200), &p, true, &no_extra);
    }
    col
}

pub fn c04(ctx: &Ctx) -> Collector {
    let col = Collector::new("C04", "exploration");
    col.set_rule("cases = S_opt (forced/automatic lattice of all four options), S_cell (all 3840 forced cells), S_order, S_cross (forced modes less dense than the content, up to beyond the version-40 capacity of the forced mode), forced versions with and without a level, forced masks on uniform payloads; oracle: both 15-bit format copies read at the Figure 25 coordinates equal BCH(15,5)(level,mask) xor 0x5412 computed by R, both 18-bit version copies (v>=7) equal BCH(18,6)(v), and the ecl/mask/version/mode/size fields equal what the symbol encodes and every forced option, level defaulting to Q; non-trivial = a symbol was returned; distinct = distinct symbol matrices");
    col.assume(A_REF);
    let p = ["C04"];
    run_space(&col, 0, &spaces::s_opt(ctx.tier.thorough()), &p, true, &no_extra);
    run_space(&col, 1, &spaces::s_cell(ctx.tier.thorough()), &p, true, &no_extra);
    run_space(&col, 2, &spaces::s_small(&[None], false), &p, true, &no_extra);
    run_space(&col, 4, &spaces::s_order(ctx.tier.thorough()), &p, true, &no_extra);
    run_histories(&col, 5, &p, ctx.tier.thorough());
    // forced versions at capacity thresholds, with and without a level (default Q must not silently become M or L)
    run_space(&col, 6, &s_forced_versions(false), &p, true, &no_extra);
    run_space(&col, 7, &s_default_level_big(), &p, true, &no_extra);
    run_space(&col, 8, &s_forced_mask_extreme(), &p, true, &no_extra);
    // a forced mode less dense than the content needs, up to and beyond the version-40 capacity of the forced mode
    // (a build that "helps" by falling back to the content's own mode reports a mode the caller did not force)
    run_space(&col, 9, &spaces::s_cross(false), &p, true, &no_extra);
    // payloads that begin like documents do (byte-order marks, schemes, record prefixes, line ends): the mode indicator
    // in the symbol is the reported mode whatever the first bytes are
    run_space(&col, 10, &s_corpus(), &p, true, &no_extra);
    if ctx.tier.thorough() {
        run_space(&col, 3, &spaces::s_len(Family::Ctr, 7200), &p, true, &no_extra);
    }
    col
}

/// S_len restricted to byte mode with valid multi-byte UTF-8 text (character count < byte count)
pub fn s_len_utf8(thorough: bool) -> Space {
    let mut sp = spaces::s_len_tier(Family::Utf8, 7200, thorough);
    sp.cases.retain(|c| matches!(c.input, spaces::Input::Fam(_, 2, _)));
    sp.name = format!("S_len[utf8]{}", if thorough { "" } else { "/quick" });
    sp.describe = format!("byte mode x 4 levels x {} with valid UTF-8 text of 2-, 3- and 4-byte characters (character count < byte count), version+mask automatic", if thorough { "every length 0..=7200" } else { "lengths 0..=128, all capacity thresholds -1/0/+1, every 7th length" });
    sp
}

/// no level given (default Q) with payloads around the version-40 capacities at Q, M and L of each mode: beyond the
/// capacity at Q the build must be refused, not answered with a weaker level
pub fn s_default_level_big() -> Space {
    let mut cases = vec![];
    for m in 0..3usize {
        let mut lens = vec![];
        for e in [2usize, 1, 0] {
            let c = r::cap(40, e, m);
            lens.extend([c - 1, c, c + 1]);
        }
        for v in [10usize, 20, 30, 39] {
            lens.extend([r::cap(v, 2, m), r::cap(v, 2, m) + 1]);
        }
        for len in lens {
            for mode in [None, Some(m as u8)] {
                cases.push(Case { input: spaces::Input::Fam(Family::Ctr, m as u8, len as u32), opts: Opts { mode, ecl: None, version: None, mask: None, order: 0 } });
            }
        }
    }
    Space { name: "S_default_level_big".into(), describe: "no level given x 3 modes (automatic and forced) x lengths -1/0/+1 around the version-40 capacity at Q, M and L and at the Q capacity of versions 10, 20, 30, 39".into(), cases, exhaustive: true }
}

/// forced masks on uniform payloads that fill the symbol (where a forced mask is as bad as it gets for the penalty)
pub fn s_forced_mask_extreme() -> Space {
    let mut cases = vec![];
    for v in [1usize, 2, 5, 10, 20, 40] {
        for e in 0..4usize {
            let len = r::cap(v, e, 2);
            for fill in [0x00u8, 0xFF, 0xAA, 0x55] {
                for k in 0..8u8 {
                    cases.push(Case::new(vec![fill; len], Opts { mode: Some(2), ecl: Some(e as u8), version: Some(v as u8), mask: Some(k), order: 0 }));
                }
            }
        }
    }
    Space { name: "S_forced_mask_extreme".into(), describe: "versions {1,2,5,10,20,40} x 4 levels x byte payloads of full capacity made of 0x00 / 0xFF / 0xAA / 0x55 x all 8 forced masks".into(), cases, exhaustive: true }
}

/// forced-version spaces of C05
pub fn s_forced_versions(thorough: bool) -> Space {
    let mut cases = vec![];
    for m in 0..3usize {
        for e in 0..4usize {
            if thorough {
                for len in 0..=r::cap(40, e, m) {
                    for fv in 1..=40u8 {
                        cases.push(Case {
                            input: spaces::Input::Fam(Family::Ctr, m as u8, len as u32),
                            opts: Opts { mode: Some(m as u8), ecl: Some(e as u8), version: Some(fv), mask: None, order: 0 },
                        });
                    }
                }
            } else {
                for v in 1..=40usize {
                    let c = r::cap(v, e, m);
                    for len in [c.saturating_sub(1), c, c + 1] {
                        let mut fvs = vec![1usize, v.saturating_sub(1).max(1), v, (v + 1).min(40), 40];
                        fvs.sort();
                        fvs.dedup();
                        for fv in fvs {
                            cases.push(Case {
                                input: spaces::Input::Fam(Family::Ctr, m as u8, len as u32),
                                opts: Opts { mode: Some(m as u8), ecl: Some(e as u8), version: Some(fv as u8), mask: None, order: 0 },
                            });
                        }
                    }
                }
            }
        }
    }
    // no level given (default Q) with a forced version: lengths around the version's capacity at Q and at L/M
    // (a too small forced version must be refused, not answered with a weaker level)
    for m in 0..3usize {
        for v in 1..=40usize {
            if !thorough && !(v <= 10 || v % 5 == 0) {
                continue;
            }
            let mut lens = vec![r::cap(v, 2, m), r::cap(v, 2, m) + 1, r::cap(v, 1, m), r::cap(v, 0, m), r::cap(v, 0, m) + 1];
            lens.dedup();
            for len in lens {
                for mode in [Some(m as u8), None] {
                    cases.push(Case {
                        input: spaces::Input::Fam(Family::Ctr, m as u8, len as u32),
                        opts: Opts { mode, ecl: None, version: Some(v as u8), mask: None, order: (len % 24) as u8 },
                    });
                }
            }
        }
    }
    Space {
        name: "S_forced_version".into(),
        describe: if thorough {
            "complete triangle: every (mode, level, length <= capacity of v40) x every forced version 1..40; no level given x forced v x lengths at the capacity of v at Q, M and L".into()
        } else {
            "for every (mode, level, v): lengths {cap(v)-1, cap(v), cap(v)+1} x forced versions {1, v-1, v, v+1, 40}; no level given x forced v x lengths at the capacity of v at Q, M and L".into()
        },
        cases,
        exhaustive: true,
    }
}

pub fn s_far_beyond() -> Space {
    let mut cases = vec![];
    for m in 0..3usize {
        for e in 0..4usize {
            // beyond capacity: 7201..8000, powers of ten, and the neighbourhood of 2^16, 2^17, 2^20 and 2^24
            // (a length narrowed to u16/u32 or split into bytes wraps around to a length that fits)
            let mut lens: Vec<usize> = (7201..=8000).chain([10_000, 100_000, 1_000_000]).collect();
            for k in [16u32, 17, 20, 24] {
                let p = 1usize << k;
                lens.extend([p - 1, p, p + 1, p + 17, p + 255, p + 256, p + 1000, p + r::cap(40, e, m), p + r::cap(40, e, m) + 1]);
            }
            lens.extend([255 * 256 + 255 + 1, 3 * 65536 + 41, 2 * 65536]);
            for len in lens {
                for version in [None, Some(1u8), Some(40u8)] {
                    if version.is_some() && len % 100 != 0 && len < 60_000 {
                        continue;
                    }
                    cases.push(Case {
                        input: spaces::Input::Fam(Family::Ctr, m as u8, len as u32),
                        opts: Opts { mode: Some(m as u8), ecl: Some(e as u8), version, mask: None, order: 0 },
                    });
                }
            }
        }
    }
    Space { name: "S_beyond".into(), describe: "lengths 7201..=8000, 10^4, 10^5, 10^6 and the neighbourhoods of 2^16, 2^17, 2^20, 2^24 (wrap-around of a narrowed length) x 3 modes x 4 levels (version automatic; forced 1 and 40 on multiples of 100 and on all lengths >= 60000)".into(), cases, exhaustive: true }
}

pub fn c05(ctx: &Ctx) -> Collector {
    let col = Collector::new("C05", "exploration");
    col.set_rule("cases = S_len with automatic version (thorough: every length 0..=7200 x 3 modes x 4 levels = 86 412 points; quick: lengths 0..=128, the -1/0/+1 neighbourhood of all 480 capacity thresholds and every 7th length) + forced-version space (quick: threshold neighbourhoods; thorough: the complete (length x forced version) triangle) + lengths far beyond capacity; oracle: R's capacity inequality 4 + count bits + payload bits <= 8 x data codewords gives the smallest sufficient version / the expected error; a returned symbol must use that version (or the forced one) and its data must fit; panics are violations; non-trivial = a symbol was returned; distinct = distinct symbol matrices");
    col.assume(A_REF);
    col.assume("an over-capacity input with a forced version may return either documented error (the statement allows both)");
    let p = ["C05"];
    run_space(&col, 0, &spaces::s_len_tier(Family::Ctr, 7200, ctx.tier.thorough()), &p, false, &no_extra);
    run_space(&col, 1, &s_forced_versions(ctx.tier.thorough()), &p, false, &no_extra);
    run_space(&col, 2, &s_far_beyond(), &p, false, &no_extra);
    run_space(&col, 3, &spaces::s_opt(ctx.tier.thorough()), &p, false, &no_extra);
    run_space(&col, 5, &spaces::s_cross(ctx.tier.thorough()), &p, false, &no_extra);
    run_space(&col, 6, &spaces::s_order(ctx.tier.thorough()), &p, false, &no_extra);
    run_space(&col, 7, &s_len_utf8(ctx.tier.thorough()), &p, false, &no_extra);
    // automatic mode on long strings of each alphabet with one other character at every position (the version is the
    // smallest for the mode the content has; a detection slip shows as a panic or a wrong version)
    run_space(&col, 16, &s_long_auto(ctx.tier.thorough()), &p, false, &no_extra);
    run_space(&col, 17, &s_edges(ctx.tier.thorough()), &p, false, &no_extra);
    run_space(&col, 8, &s_long_foreign(ctx.tier.thorough()), &p, false, &no_extra);
    run_space(&col, 9, &s_default_level_big(), &p, false, &no_extra);
    if ctx.tier.thorough() {
        run_space(&col, 4, &spaces::s_len(Family::Hi, 7200), &p, false, &no_extra);
    }
    col
}

pub fn c06(ctx: &Ctx) -> Collector {
    let col = Collector::new("C06", "exploration");
    col.set_rule("cases = S_len (all lengths: all residues mod 3 / mod 2 and all spare-bit counts), S_cell (all three count-width classes x 4 levels, longest pad runs at lengths 0..3 in forced large versions), S_group (every digit/alphanumeric/byte group value at every bit alignment), S_small; oracle: ALL data codewords recovered by the reference read-out (after de-interleaving) equal R's 7.4 bit stream for the input (indicator, count, packing, terminator min(4, spare), bit padding, 0xEC/0x11 alternation to capacity); non-trivial = a symbol was returned; distinct = distinct symbol matrices");
    common(&col);
    let p = ["C06"];
    let mut i = 0;
    for f in families(ctx) {
        run_space(&col, i, &spaces::s_len_tier(f, 7200, ctx.tier.thorough()), &p, true, &no_extra);
        i += 1;
    }
    run_space(&col, 10, &spaces::s_cell(ctx.tier.thorough()), &p, true, &no_extra);
    run_space(&col, 11, &spaces::s_group(ctx.tier.thorough()), &p, true, &no_extra);
    run_space(&col, 12, &spaces::s_small(if ctx.tier.thorough() { &[None, Some(0)] } else { &[None] }, ctx.tier.thorough()), &p, true, &no_extra);
    run_space(&col, 13, &spaces::s_opt(ctx.tier.thorough()), &p, true, &no_extra);
    run_space(&col, 14, &spaces::s_cap_families(ctx.tier.thorough()), &p, true, &no_extra);
    run_space(&col, 15, &spaces::s_cross(ctx.tier.thorough()), &p, true, &no_extra);
    run_space(&col, 16, &spaces::s_pair_ctx(ctx.tier.thorough()), &p, true, &no_extra);
    run_space(&col, 17, &spaces::s_order(ctx.tier.thorough()), &p, true, &no_extra);
    run_space(&col, 62, &s_runs(), &p, true, &no_extra);
    run_space(&col, 63, &s_counts(), &p, true, &no_extra);
    run_space(&col, 18, &s_len_utf8(ctx.tier.thorough()), &p, true, &no_extra);
    run_space(&col, 19, &spaces::s_forced_dense(ctx.tier.thorough()), &p, true, &no_extra);
    run_histories(&col, 22, &p, ctx.tier.thorough());
    run_space(&col, 23, &spaces::s_antimask(ctx.tier.thorough()), &p, true, &no_extra);
    run_space(&col, 24, &s_corpus(), &p, true, &no_extra);
    run_space(&col, 26, &spaces::s_cw(ctx.tier.thorough()), &p, true, &no_extra);
    if !ctx.tier.thorough() {
        run_space(&col, 25, &s_forced_versions(false), &p, true, &no_extra);
    }
    if ctx.tier.thorough() {
        // the complete (length x forced version) triangle of C05, judged here for this property
        run_space(&col, 21, &s_forced_versions(true), &p, true, &no_extra);
    }
    seeded_supplement(ctx, &col, 20, &p, true);
    col
}

// ---------------------------------------------------------------- C09

const REP_D: [u8; 4] = [b'0', b'9', b'5', b'1'];
const REP_A: [u8; 4] = [b'A', b':', b' ', b'Z'];
const REP_O: [u8; 4] = [b'a', 0x00, 0xFF, b'#'];

fn class_rep(class: usize, pos: usize, assignment: usize) -> u8 {
    let i = (pos + assignment) % 4;
    match class {
        0 => REP_D[i],
        1 => REP_A[i],
        _ => REP_O[i],
    }
}

fn auto_case(b: Vec<u8>) -> Case {
    Case::new(b, Opts::default())
}

pub fn s_class_patterns(max_len: usize) -> Space {
    let mut cases = vec![];
    for len in 0..=max_len {
        for code in 0..3usize.pow(len as u32) {
            for a in 0..2usize {
                let mut c = code;
                let mut s = vec![];
                for pos in 0..len {
                    s.push(class_rep(c % 3, pos, a * 2));
                    c /= 3;
                }
                cases.push(auto_case(s));
                if len == 0 {
                    break;
                }
            }
        }
    }
    Space { name: "S_class".into(), describe: format!("all class patterns over {{digit, alnum-non-digit, other}} of length 0..={} x 2 representative assignments, all options automatic", max_len), cases, exhaustive: true }
}

pub fn s_byte_at_position(max_len: usize) -> Space {
    let mut cases = vec![];
    for len in 1..=max_len {
        for p in 0..len {
            for code in 0..3usize.pow(len as u32 - 1) {
                for b in 0..=255u8 {
                    let mut c = code;
                    let mut s = vec![];
                    for pos in 0..len {
                        if pos == p {
                            s.push(b);
                        } else {
                            s.push(class_rep(c % 3, pos, 0));
                            c /= 3;
                        }
                    }
                    cases.push(auto_case(s));
                }
            }
        }
    }
    Space { name: "S_byte_at".into(), describe: format!("all 256 byte values at every position of every string of length 1..={} whose other positions range over all class patterns", max_len), cases, exhaustive: true }
}

pub fn s_long_auto(thorough: bool) -> Space {
    let mut cases = vec![];
    let lens: Vec<usize> = if thorough { (1..=1200).collect() } else { (1..=300).collect() };
    for m in 0..3usize {
        for &len in &lens {
            cases.push(auto_case(spaces::content(Family::Ctr, m, len)));
        }
    }
    // one foreign character at every position of a long digit / alphanumeric string
    let base_len = if thorough { 400 } else { 120 };
    for p in 0..base_len {
        // (among digits also the characters a lenient number parser lets through: sign, point, exponent, blank, underscore, 0x)
        for &(m, foreign) in &[(0usize, b'A'), (0, b'a'), (0, b':'), (0, 0x2Fu8), (0, 0x3A), (0, b'+'), (0, b'-'), (0, b'.'), (0, b' '), (0, b'e'), (0, b'E'), (0, b'_'), (0, b'x'), (1, b'a'), (1, b'#'), (1, 0x80u8), (1, b'`'), (1, b'[')] {
            let mut s = spaces::content(if m == 0 { Family::Ctr } else { Family::Hi }, m, base_len);
            s[p] = foreign;
            cases.push(auto_case(s));
        }
    }
    // every byte value at chosen positions (block starts, block ends, the scalar tail) of digit and letter strings
    // of several lengths: a classifier that works on chunks, masks bits or uses a table has to be right for all 256
    for &len in &[8usize, 9, 16, 17, 24, 31, 32, 33, 64, 65, 120] {
        let mut pos: Vec<usize> = vec![0, 1, 3, 7, 8, 15, 16, len / 2, len.saturating_sub(9), len.saturating_sub(8), len - 2, len - 1];
        pos.retain(|&p| p < len);
        pos.sort();
        pos.dedup();
        for p in pos {
            for b in 0..=255u8 {
                for m in 0..2usize {
                    if !thorough && m == 1 && len > 33 {
                        continue;
                    }
                    let mut s = spaces::content(Family::Ctr, m, len);
                    s[p] = b;
                    cases.push(auto_case(s));
                }
            }
        }
    }
    Space { name: "S_long_auto".into(), describe: format!("automatic mode on ctr content of each alphabet for every length 1..={}, one foreign character (alnum-only / other) at every position of a {}-character digit or alphanumeric string, and every byte value at 12 chosen positions of digit / letter strings of lengths 8..120", lens.len(), base_len), cases, exhaustive: true }
}

/// S_mixed_auto: strings made of a run of one class followed by a run of another (digits then alphanumeric
/// letters, letters then digits, and the same with a lowercase tail), of every length up to `max_len` and every
/// split point, clean and with one foreign byte at every position; automatic mode; version automatic and forced to
/// S_edges: payloads whose first or last character is one that an input clean-up would drop (NUL, blank, line ends, tab
/// in Byte; blank and '0' in Alphanumeric; '0' in Numeric), at a length equal to a capacity and one beyond it, for the
/// (version, level) pairs around the count-width boundaries and both ends of the range. One dropped character moves
/// such a payload across the threshold: the version, the error or the decoded payload shows it.
pub fn s_edges(thorough: bool) -> Space {
    let mut cases = vec![];
    let versions: Vec<usize> = if thorough { (1..=40).collect() } else { vec![1, 2, 9, 10, 26, 27, 39, 40] };
    for m in 0..3usize {
        let chars: &[u8] = match m {
            0 => b"0",
            1 => b" 0",
            _ => &[0x00, b' ', b'\n', b'\r', b'\t'],
        };
        for &v in &versions {
            for e in 0..4usize {
                let cap = r::cap(v, e, m);
                for len in [cap, cap + 1] {
                    if len == 0 {
                        continue;
                    }
                    for &ch in chars {
                        for at_end in [false, true] {
                            let mut p = spaces::content(Family::Ctr, m, len);
                            let i = if at_end { len - 1 } else { 0 };
                            p[i] = ch;
                            // the neighbour is not one of them (a single character is at stake)
                            if len > 1 {
                                let j = if at_end { len - 2 } else { 1 };
                                if chars.contains(&p[j]) {
                                    p[j] = match m {
                                        0 => b'7',
                                        1 => b'K',
                                        _ => b'x',
                                    };
                                }
                            }
                            cases.push(Case::new(p.clone(), Opts { mode: Some(m as u8), ecl: Some(e as u8), ..Opts::default() }));
                            if len == cap + 1 && v < 40 {
                                cases.push(Case::new(p, Opts { mode: Some(m as u8), ecl: Some(e as u8), version: Some(v as u8), ..Opts::default() }));
                            }
                        }
                    }
                }
            }
        }
    }
    Space { name: format!("S_edges{}", if thorough { "" } else { "/quick" }), describe: format!("payloads of length capacity and capacity+1 whose first or last character is NUL / blank / LF / CR / TAB (Byte), blank / '0' (Alphanumeric), '0' (Numeric), mode and level forced, version automatic, and the capacity+1 payload also with the version it does not fit forced: versions {:?} x 4 levels", versions), cases, exhaustive: true }
}

/// S_runs: a run of c equal characters (c = 1..=13, 16, 17, 32, 33, 64) that starts at offset 0..=5 and is followed by
/// 0, 1, 2, 3 or 5 other characters, for the characters whose encoded value is all zeros or all ones or a round number
/// in each mode ('0' and '9' in Numeric; '0', 'A', blank, ':' in Alphanumeric; 0x00, 'a', 0xFF in Byte), with the mode
/// forced and automatic. Shortcuts for runs (skipped zero groups, run-length scans, fast-forwarding) are keyed on
/// exactly these shapes: the run's length modulo the packing group and where it starts inside a group.
pub fn s_runs() -> Space {
    let mut cases = vec![];
    let lens: Vec<usize> = (1..=13).chain([16usize, 17, 32, 33, 64]).collect();
    for m in 0..3usize {
        let chars: &[u8] = match m {
            0 => b"09",
            1 => b"0A :",
            _ => &[0x00, b'a', 0xFF],
        };
        for &ch in chars {
            for &c in &lens {
                for o in 0..=5usize {
                    for t in [0usize, 1, 2, 3, 5] {
                        let mut v: Vec<u8> = spaces::content(Family::Ctr, m, o);
                        v.extend(std::iter::repeat(ch).take(c));
                        let tail = spaces::content(Family::Ctr, m, t + 1);
                        v.extend_from_slice(&tail[1..]);
                        cases.push(Case::new(v.clone(), Opts { mode: Some(m as u8), ecl: Some(1), ..Opts::default() }));
                        if (c + o + t) % 2 == 0 {
                            cases.push(Case::new(v, Opts::default()));
                        }
                    }
                }
            }
        }
    }
    Space { name: "S_runs".into(), describe: "a run of c equal characters (c = 1..=13, 16, 17, 32, 33, 64; '0' '9' in Numeric, '0' 'A' blank ':' in Alphanumeric, 0x00 'a' 0xFF in Byte) starting at offset 0..=5 and followed by 0, 1, 2, 3 or 5 other characters, mode forced (level M) and, for every second case, everything automatic".into(), cases, exhaustive: true }
}

/// S_counts: automatic mode on inputs in which the byte values that rule out a more compact mode occur an exact number
/// of times: c in {255, 256, 257, 511, 512, 513, 768, 1024, 1280} occurrences of one such value (at the start, at the
/// end, spread evenly) among 0, 1 or 300 characters of the compact class, and uniform inputs of those lengths. A
/// detection that tallies per byte value in a narrow counter, or samples every n-th byte, is wrong for some count.
pub fn s_counts() -> Space {
    let mut cases = vec![];
    let counts = [255usize, 256, 257, 511, 512, 513, 768, 1024, 1280];
    // (compact class, the value that rules it out)
    let combos: [(usize, u8); 6] = [(0, b'A'), (0, b'a'), (0, b' '), (1, b','), (1, b'a'), (1, 0xE9)];
    let rep = |class: usize, i: usize| -> u8 {
        match class {
            0 => b'0' + ((i * 7 + 1) % 10) as u8,
            _ => [b'A', b'Z', b' ', b'-', b'M', b'/', b'K'][i % 7],
        }
    };
    for &c in &counts {
        for &(class, bad) in &combos {
            for base_len in [0usize, 1, 300] {
                for layout in 0..3 {
                    if base_len == 0 && layout > 0 {
                        continue;
                    }
                    let total = c + base_len;
                    let mut v: Vec<u8> = Vec::with_capacity(total);
                    match layout {
                        0 => {
                            v.extend(std::iter::repeat(bad).take(c));
                            v.extend((0..base_len).map(|i| rep(class, i)));
                        }
                        1 => {
                            v.extend((0..base_len).map(|i| rep(class, i)));
                            v.extend(std::iter::repeat(bad).take(c));
                        }
                        _ => {
                            // spread: the bad value at positions i*total/c
                            let mut next = 0usize;
                            let mut placed = 0usize;
                            let mut basei = 0usize;
                            for i in 0..total {
                                if placed < c && i == next {
                                    v.push(bad);
                                    placed += 1;
                                    next = placed * total / c;
                                } else if basei < base_len {
                                    v.push(rep(class, basei));
                                    basei += 1;
                                } else {
                                    v.push(bad);
                                    placed += 1;
                                }
                            }
                        }
                    }
                    cases.push(Case::new(v.clone(), Opts { ecl: Some(0), ..Opts::default() }));
                    if layout == 0 {
                        cases.push(Case::new(v, Opts::default()));
                    }
                }
            }
        }
    }
    Space { name: "S_counts".into(), describe: "automatic mode: a byte value that rules out the more compact mode occurring exactly c times, c in {255, 256, 257, 511, 512, 513, 768, 1024, 1280}, for 6 (compact class, ruling-out value) pairs x {alone, with 1, with 300 characters of the compact class} x {at the start, at the end, spread evenly}, level L (and the default level for the first layout)".into(), cases, exhaustive: true }
}

/// the smallest sufficient version and the next one. A detection that scans in blocks, hands over between stages
/// at the first class change, or looks at a prefix only, is wrong for some (length, split, position) triple.
pub fn s_mixed_auto(max_len: usize, thorough: bool) -> Space {
    let mut cases = vec![];
    let runs: [(usize, usize); 4] = [(0, 1), (1, 0), (0, 2), (1, 2)];
    let rep = |class: usize, i: usize| -> u8 {
        match class {
            0 => b'0' + ((i * 7 + 1) % 10) as u8,
            1 => [b'A', b'Z', b' ', b'-', b'M', b'/', b'K'][i % 7],
            _ => [b'a', b'z', b'k'][i % 3],
        }
    };
    for len in 0..=max_len {
        for split in 0..=len.min(if thorough { len } else { 20 }) {
            for &(c1, c2) in &runs {
                if split == 0 && c1 != 0 {
                    continue;
                }
                let base: Vec<u8> = (0..len).map(|i| if i < split { rep(c1, i) } else { rep(c2, i) }).collect();
                let mut variants: Vec<Vec<u8>> = vec![base.clone()];
                if c2 != 2 {
                    for p in split..len {
                        for f in [b',', b'a'] {
                            if !thorough && f == b'a' && p % 3 != 0 {
                                continue;
                            }
                            let mut v = base.clone();
                            v[p] = f;
                            variants.push(v);
                        }
                    }
                }
                for v in variants {
                    let m = r::auto_mode(&v);
                    let minv = r::min_version(m, 2, v.len());
                    cases.push(Case::new(v.clone(), Opts::default()));
                    if let Some(mv) = minv {
                        if (len + split) % 4 == 0 {
                            cases.push(Case::new(v.clone(), Opts { version: Some(mv as u8), ..Opts::default() }));
                            cases.push(Case::new(v, Opts { version: Some((mv + 1).min(40) as u8), ecl: Some(0), ..Opts::default() }));
                        }
                    }
                }
            }
        }
    }
    Space { name: "S_mixed_auto".into(), describe: format!("two-run strings (digits|letters then letters|digits|lowercase) of every length 0..={} and every split point{}, clean and with one foreign byte (',' and 'a') at every position of the second run; automatic mode; version automatic and (every fourth) forced to the smallest sufficient version and the next one", max_len, if thorough { "" } else { " <= 20" }), cases, exhaustive: true }
}

/// S_corpus: what people actually put into QR codes, in upper and lower case, with digit-only, letter-only and
/// mixed remainders, and with a byte-order mark / whitespace in front: scheme and record prefixes are where a
/// "fast path" for a special kind of input goes wrong
pub fn s_corpus() -> Space {
    let prefixes: [&str; 28] = [
        "http://", "https://", "HTTP://", "HTTPS://", "Http://", "www.", "WWW.", "mailto:", "MAILTO:", "tel:", "TEL:", "TEL:+", "sms:", "SMSTO:", "geo:", "GEO:", "WIFI:", "WIFI:T:WPA;S:", "BEGIN:VCARD", "BEGIN:VEVENT", "MATMSG:TO:", "MECARD:N:", "bitcoin:", "otpauth://totp/", "urn:", "URN:", "data:", "",
    ];
    let rests: [&str; 9] = ["", "0123456789", "31415926535897932384626433832795", "EXAMPLE.COM/A", "FAST-QR.COM/PATH/TO/PAGE 1", "example.com/a?b=c&d=e", "Example.Com", "A", "a"];
    let fronts: [&[u8]; 5] = [b"", b"\xEF\xBB\xBF", b" ", b"\n", b"\xFF\xFE"];
    let mut cases = vec![];
    for f in fronts {
        for p in prefixes {
            for r in rests {
                let mut v = f.to_vec();
                v.extend_from_slice(p.as_bytes());
                v.extend_from_slice(r.as_bytes());
                cases.push(auto_case(v.clone()));
                if f.is_empty() {
                    let mut w = v.clone();
                    w.push(b'\n');
                    cases.push(auto_case(w));
                    let mut w = v;
                    w.extend_from_slice(b"\r\n");
                    cases.push(auto_case(w));
                }
            }
        }
    }
    Space { name: "S_corpus".into(), describe: "28 scheme / record prefixes in upper and lower case x 9 remainders (empty, digits, upper-case host and path, lower-case URL, single letters) x 5 fronts (none, UTF-8 byte-order mark, space, line feed, FF FE), and with LF / CRLF at the end; all options automatic".into(), cases, exhaustive: true }
}

/// S_long_foreign: one foreign byte at positions on a ladder (powers of two, capacity edges) of digit and letter
/// strings that are as long as the largest symbols hold: a detection that looks at a bounded prefix, or in chunks,
/// is wrong only far into a long input. Levels L, M and the default.
pub fn s_long_foreign(thorough: bool) -> Space {
    let mut cases = vec![];
    let ladder: Vec<usize> = vec![0, 1, 7, 8, 63, 64, 255, 256, 1023, 1024, 2047, 2048, 2952, 2953, 4095, 4096, 4295, 4296, 4297, 4298, 5595, 5596, 7087, 7088];
    for (m, foreign) in [(0usize, b'A'), (0, b'a'), (1, b'a'), (1, b'#')] {
        for e in [Some(0u8), Some(1), None] {
            let lens: Vec<usize> = if m == 0 { vec![2900, 4297, 4298, 5596, 7089] } else { vec![2900, 4296] };
            for len in lens {
                for &p in &ladder {
                    if p >= len || (!thorough && foreign == b'#' && p % 2 == 1) {
                        continue;
                    }
                    let mut s = spaces::content(Family::Ctr, m, len);
                    s[p] = foreign;
                    cases.push(Case::new(s, Opts { ecl: e, ..Opts::default() }));
                }
            }
        }
    }
    Space { name: "S_long_foreign".into(), describe: "digit strings of 2900, 4297, 4298, 5596, 7089 characters and letter strings of 2900, 4296 with one foreign byte at 24 ladder positions (powers of two and capacity edges, up to the last character), levels L, M and default, automatic mode (most must be refused as too big for Byte mode, the 2900-character ones fit)".into(), cases, exhaustive: true }
}

fn c09_extra(case: &Case, _input: &[u8], out: &Outcome) -> Vec<Finding> {
    if case.opts.mode.is_none() {
        if let Outcome::Panic(msg) = out {
            return vec![Finding { prop: "C09", key: "C09/rejected".into(), what: format!("automatic mode: build panicked (a character was rejected by the chosen mode?): {}", msg) }];
        }
    }
    vec![]
}

pub fn c09(ctx: &Ctx) -> Collector {
    let col = Collector::new("C09", "exploration");
    col.set_rule("cases (all options automatic) = every byte string of length <= 2 jointly; all class patterns over {digit, alnum-non-digit, other} to length 8 x 2 assignments; all 256 byte values at every position of strings to length 5 (thorough 6) over all class patterns of the other positions; long strings of each alphabet and one foreign character at every position; S_counts (a ruling-out byte value occurring exactly 255..1280 times); oracle: R's literal definition (all digits incl. empty -> Numeric; all in the 45-set with a non-digit -> Alphanumeric; else Byte) equals the mode field and the decoded mode indicator, and the decoded characters equal the input; non-trivial = a symbol was returned; distinct = distinct symbol matrices");
    col.assume(A_REF);
    let p = ["C09"];
    run_space(&col, 0, &spaces::s_small(&[None], ctx.tier.thorough()), &p, false, &c09_extra);
    run_space(&col, 1, &s_class_patterns(8), &p, false, &c09_extra);
    run_space(&col, 2, &s_byte_at_position(if ctx.tier.thorough() { 6 } else { 5 }), &p, false, &c09_extra);
    run_space(&col, 3, &s_long_auto(ctx.tier.thorough()), &p, false, &c09_extra);
    // automatic mode over the lengths of each alphabet up to the v40 capacity (mode left automatic wherever the
    // content permits): a detection that changes with the length (e.g. a shortcut for long inputs) shows here
    run_space(&col, 4, &spaces::s_len_tier(Family::Ctr, 7200, ctx.tier.thorough()), &p, false, &c09_extra);
    run_space(&col, 5, &spaces::s_pair_ctx(ctx.tier.thorough()), &p, false, &c09_extra);
    run_space(&col, 6, &s_mixed_auto(if ctx.tier.thorough() { 64 } else { 48 }, ctx.tier.thorough()), &p, false, &c09_extra);
    run_space(&col, 7, &spaces::s_opt(ctx.tier.thorough()), &p, false, &c09_extra);
    run_space(&col, 8, &s_corpus(), &p, false, &c09_extra);
    run_space(&col, 9, &s_long_foreign(ctx.tier.thorough()), &p, false, &c09_extra);
    run_space(&col, 10, &s_counts(), &p, false, &c09_extra);
    run_space(&col, 51, &s_runs(), &p, false, &c09_extra);
    col
}

// ---------------------------------------------------------------- C10

pub fn c10(ctx: &Ctx) -> Collector {
    let col = Collector::new("C10", "exploration");
    col.set_rule("cases = union of S_len to length 8000 (ctr; thorough adds all-minimum, all-maximum and pad-look-alike content), S_cell, S_opt, S_group, S_small, S_forced_version, S_beyond, S_cross, all class patterns to length 8, S_pair_ctx, long automatic-mode strings with one foreign character; forced modes only with inputs inside the mode's alphabet, automatic mode with arbitrary bytes; the whole run comes after three builds outside the domain (forced mode lacking a character of the input; caught) on the main thread and on a thread that has ended; oracle: the call returns Ok or one of the two documented errors: no unwind (catch_unwind), no abort (supervising parent process), no case over the watchdog limit; the subject is built with overflow checks and debug assertions; non-trivial = a symbol was returned; distinct = distinct symbol matrices");
    col.assume("fast_qr is compiled with overflow-checks = true and debug-assertions = true (harness/Cargo.toml profile), so integer overflow and the placed-bit-count assertion unwind and are caught");
    let p = ["C10"];
    // Builds outside the property's domain come first (a forced mode whose alphabet lacks a character of the input; they
    // panic at the pinned commit and are caught), on this thread and on a thread that ends: every build of the domain
    // that follows in this process must be unaffected by them.
    for (inp, m) in [(&b"12a"[..], 0u8), (&b"hello"[..], 1), (&b"12,5"[..], 0)] {
        let o = Opts { mode: Some(m), ..Opts::default() };
        let _ = crate::subject::build(inp, &o);
        let _ = std::thread::spawn(move || {
            let _ = crate::subject::build(inp, &o);
        })
        .join();
    }
    let mut i = 0;
    for f in families(ctx) {
        run_space(&col, i, &spaces::s_len_tier(f, 8000, ctx.tier.thorough()), &p, false, &no_extra);
        i += 1;
    }
    run_space(&col, 10, &spaces::s_cell(ctx.tier.thorough()), &p, false, &no_extra);
    run_space(&col, 11, &spaces::s_opt(ctx.tier.thorough()), &p, false, &no_extra);
    run_space(&col, 12, &spaces::s_group(ctx.tier.thorough()), &p, false, &no_extra);
    run_space(&col, 13, &spaces::s_small(&[None, Some(0), Some(3)], ctx.tier.thorough()), &p, false, &no_extra);
    run_space(&col, 14, &s_forced_versions(false), &p, false, &no_extra);
    run_space(&col, 15, &s_far_beyond(), &p, false, &no_extra);
    run_space(&col, 16, &s_byte_at_position(if ctx.tier.thorough() { 5 } else { 4 }), &p, false, &no_extra);
    run_space(&col, 17, &spaces::s_cap_families(ctx.tier.thorough()), &p, false, &no_extra);
    run_space(&col, 18, &spaces::s_cross(ctx.tier.thorough()), &p, false, &no_extra);
    run_space(&col, 19, &s_class_patterns(8), &p, false, &no_extra);
    run_space(&col, 21, &spaces::s_pair_ctx(ctx.tier.thorough()), &p, false, &no_extra);
    run_space(&col, 22, &s_long_auto(ctx.tier.thorough()), &p, false, &no_extra);
    run_space(&col, 23, &spaces::s_order(ctx.tier.thorough()), &p, false, &no_extra);
    run_space(&col, 25, &s_mixed_auto(if ctx.tier.thorough() { 64 } else { 48 }, ctx.tier.thorough()), &p, false, &no_extra);
    run_space(&col, 65, &s_counts(), &p, false, &no_extra);
    run_space(&col, 106, &s_runs(), &p, false, &no_extra);
    run_space(&col, 28, &s_corpus(), &p, false, &no_extra);
    run_space(&col, 29, &s_long_foreign(ctx.tier.thorough()), &p, false, &no_extra);
    run_space(&col, 24, &s_len_utf8(ctx.tier.thorough()), &p, false, &no_extra);
    run_space(&col, 26, &spaces::s_forced_dense(ctx.tier.thorough()), &p, false, &no_extra);
    run_space(&col, 27, &spaces::s_antimask(ctx.tier.thorough()), &p, false, &no_extra);
    run_space(&col, 30, &spaces::s_cw(ctx.tier.thorough()), &p, false, &no_extra);
    run_space(&col, 31, &s_default_level_big(), &p, false, &no_extra);
    seeded_supplement(ctx, &col, 20, &p, false);
    col
}

// ---------------------------------------------------------------- C15

/// C15 on copies: a symbol copied with clone() or clone_from() (into a smaller and into a larger existing symbol) is a
/// QRCode too; its labels must be the source's (which the main check compares with the region map)
fn c15_extra(_case: &Case, _input: &[u8], out: &Outcome) -> Vec<Finding> {
    let mut f = vec![];
    if let Outcome::Ok(q) = out {
        let n = q.size;
        let labels = |x: &fast_qr::QRCode| -> Vec<u8> { (0..x.size * x.size).map(|i| crate::subject::type_idx(x.data[i].module_type())).collect() };
        let want = labels(q);
        let r = crate::subject::guarded(|| {
            let a = q.clone();
            let mut small = Box::new(fast_qr::QRCode::default(21));
            small.clone_from(q);
            let big_src = crate::subject::build(b"0", &crate::subject::Opts { version: Some(40), ..Default::default() });
            let mut large = match big_src {
                Outcome::Ok(b) => b,
                _ => Box::new(fast_qr::QRCode::default(177)),
            };
            large.clone_from(q);
            ((a.size, labels(&a)), (small.size, labels(&small)), (large.size, labels(&large)))
        });
        match r {
            Ok((a, b, c)) => {
                for (name, (sz, l)) in [("clone()", a), ("clone_from() into a smaller symbol", b), ("clone_from() into a version-40 symbol", c)] {
                    if sz != n || l != want {
                        let at = l.iter().zip(want.iter()).position(|(x, y)| x != y);
                        f.push(Finding { prop: "C15", key: "C15/labels-of-a-copy".into(), what: format!("{}: the copy's module types differ from the source's (side {} vs {}, first difference at flat index {:?})", name, sz, n, at) });
                        break;
                    }
                }
            }
            Err(m) => f.push(Finding { prop: "C15", key: "C15/copy-panic".into(), what: format!("copying the returned symbol panicked: {}", m) }),
        }
    }
    f
}

pub fn c15(ctx: &Ctx) -> Collector {
    let col = Collector::new("C15", "exploration");
    col.set_rule("cases = S_cell + S_opt builds (all 40 versions under all levels, masks, modes and several payloads); oracle at every coordinate (477 320 over the 40 sizes): module_type() equals R's computed ISO region map (either label accepted on the <= 5 modules per alignment pattern that lie on a timing line); count of data labels = 8 x total codewords + remainder bits; on S_opt also the labels of clone() / clone_from() copies (into a smaller and into a version-40 symbol); non-trivial = a symbol was returned; distinct = distinct symbol matrices");
    col.assume(A_REF);
    let p = ["C15"];
    run_space(&col, 0, &spaces::s_cell(ctx.tier.thorough()), &p, true, &no_extra);
    run_space(&col, 1, &spaces::s_opt(ctx.tier.thorough()), &p, true, &c15_extra);
    run_space(&col, 2, &spaces::s_small(&[None], false), &p, true, &no_extra);
    run_histories(&col, 4, &p, ctx.tier.thorough());
    // uniform and crafted payloads (a placement that treats runs of equal codewords specially must still label them)
    run_space(&col, 6, &spaces::s_cap_families(ctx.tier.thorough()), &p, true, &no_extra);
    run_space(&col, 7, &spaces::s_cw(ctx.tier.thorough()), &p, true, &no_extra);
    // symbols with long single-coloured stretches next to function patterns, under every mask (a mask sweep that treats
    // a uniform group of modules as a whole must still leave the labels alone)
    run_space(&col, 8, &spaces::s_antimask(ctx.tier.thorough()), &p, true, &no_extra);
    run_space(&col, 9, &s_forced_mask_extreme(), &p, true, &no_extra);
    callback_view(&col, ctx.tier.thorough());
    if ctx.tier.thorough() {
        run_space(&col, 3, &spaces::s_len(Family::Ctr, 7200), &p, true, &no_extra);
    }
    col
}

thread_local! {
    static CALLS: std::cell::RefCell<Vec<(usize, usize, u8)>> = std::cell::RefCell::new(Vec::new());
}

fn recording_shape(y: usize, x: usize, m: fast_qr::Module) -> String {
    CALLS.with(|c| c.borrow_mut().push((y, x, m.0)));
    format!("M{},{}h1v1h-1", x, y)
}

/// The label map as a custom shape callback sees it (the statement names this use): `Shape::Command` callbacks
/// registered first, second and third among the layers of an SvgBuilder must be called exactly once per dark module,
/// with that module's own coordinates (plus margin) and that module's own value and type.
fn callback_view(col: &Collector, thorough: bool) {
    use fast_qr::convert::svg::SvgBuilder;
    use fast_qr::convert::{Builder, Shape};
    let t0 = std::time::Instant::now();
    let versions: Vec<usize> = if thorough { (1..=40).collect() } else { vec![1, 2, 7, 10, 11, 12, 13, 20, 27, 28, 32, 40] };
    let mut tasks = vec![];
    for &v in &versions {
        for layout in 0..3usize {
            // wide quiet zones too: coordinates beyond 255 (a renderer that stores them in a narrow integer)
            for margin in [0usize, 3, 100, 300] {
                if margin >= 100 && !(v == 10 || v == 32 || v == 40) {
                    continue;
                }
                tasks.push((v, layout, margin));
            }
        }
    }
    let n_calls = std::sync::atomic::AtomicU64::new(0);
    crate::pool::par_for(tasks.len(), |i| {
        let (v, layout, margin) = tasks[i];
        let input = spaces::content(Family::Ctr, 2, r::cap(v, 1, 2));
        let o = Opts { mode: Some(2), ecl: Some(1), version: Some(v as u8), mask: None, order: 0 };
        let q = match crate::subject::build(&input, &o) {
            Outcome::Ok(q) => q,
            _ => {
                col.skipped_panic();
                return;
            }
        };
        let n = q.size;
        let res = crate::subject::guarded(|| {
            CALLS.with(|c| c.borrow_mut().clear());
            let mut b = SvgBuilder::default();
            b.margin(margin);
            match layout {
                0 => {
                    b.shape(Shape::Command(recording_shape));
                }
                1 => {
                    b.shape(Shape::Square).shape(Shape::Command(recording_shape));
                }
                _ => {
                    b.shape(Shape::Circle).shape_color(Shape::Diamond, [255, 0, 0, 255]).shape(Shape::Command(recording_shape));
                }
            }
            let _ = b.to_str(&q);
            CALLS.with(|c| c.borrow().clone())
        });
        let calls = match res {
            Ok(c) => c,
            Err(m) => {
                col.violation((5, i as u64), "C15/callback-panic".into(), format!("v{} layout {}: rendering with a custom shape panicked: {}", v, layout, m), json_case(v, layout, margin));
                return;
            }
        };
        n_calls.fetch_add(calls.len() as u64, std::sync::atomic::Ordering::Relaxed);
        col.eval(Some(crate::util::fnv(format!("{:?}{}", (v, layout, margin), calls.len()).as_bytes())));
        let mut seen = vec![0u8; n * n];
        let mut bad: Option<String> = None;
        for &(y, x, raw) in &calls {
            if y < margin || x < margin || y - margin >= n || x - margin >= n {
                bad.get_or_insert(format!("callback called with (y {}, x {}) outside the symbol (margin {})", y, x, margin));
                continue;
            }
            let (r0, c0) = (y - margin, x - margin);
            let own = q.data[r0 * n + c0];
            seen[r0 * n + c0] += 1;
            if own.0 != raw {
                let got = fast_qr::Module(raw);
                bad.get_or_insert(format!("callback for module (row {}, col {}) received a module of type {:?} value {} but that module is {:?} value {}", r0, c0, got.module_type(), got.value(), own.module_type(), own.value()));
            }
        }
        for r0 in 0..n {
            for c0 in 0..n {
                let want = if q.data[r0 * n + c0].value() { 1 } else { 0 };
                if seen[r0 * n + c0] != want && bad.is_none() {
                    bad = Some(format!("callback called {} time(s) for module (row {}, col {}) which is {}", seen[r0 * n + c0], r0, c0, if want == 1 { "dark" } else { "light" }));
                }
            }
        }
        if let Some(w) = bad {
            col.violation((5, i as u64), "C15/callback-sees-wrong-module".into(), format!("v{} custom shape registered {} (margin {}): {}", v, ["alone", "second", "third"][layout], margin, w), json_case(v, layout, margin));
        }
    });
    col.space(serde_json::json!({"name": "callback view", "cases": tasks.len(), "callback_calls": n_calls.load(std::sync::atomic::Ordering::Relaxed), "exhaustive": true,
        "what": format!("versions {:?} x custom Shape::Command registered alone / second / third x margins {{0,3}}: one call per dark module with that module's coordinates, value and type", versions),
        "wall_s": (t0.elapsed().as_secs_f64() * 100.0).round() / 100.0}));
}

fn json_case(v: usize, layout: usize, margin: usize) -> serde_json::Value {
    serde_json::json!({"kind": "callback-view", "version": v, "layout": layout, "margin": margin})
}
