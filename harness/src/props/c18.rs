//! C18: embedded-image frame is centred, module-aligned and inside the symbol; overrides are honoured

use crate::parse::xml;
use crate::pool;
use crate::props::svgcheck::{SvgModel, FRAMES};
use crate::report::{Collector, Ctx};
use crate::subject::{self, Opts, Outcome};
use fast_qr::convert::Builder;
use fast_qr::QRCode;
use serde_json::{json, Value};

const TOL: f64 = 0.0061;

#[derive(Debug, Clone, Copy)]
pub struct Geometry {
    pub fx: f64,
    pub fy: f64,
    pub fside: f64,
    pub fh: f64,
    pub ix: f64,
    pub iy: f64,
    pub iw: f64,
    pub ih: f64,
}

fn num(e: &xml::Element, a: &str) -> Result<f64, String> {
    let s = e.attr(a).ok_or(format!("<{}> has no {} attribute", e.name, a))?;
    s.trim().trim_end_matches("px").parse::<f64>().map_err(|_| format!("<{}> {}={:?} is not a number", e.name, a, s))
}

/// extracts frame and image geometry from a rendered document
pub fn geometry(doc: &str) -> Result<Geometry, String> {
    let root = xml::parse(doc).map_err(|e| format!("not well-formed: {}", e))?;
    // every <rect> after the first one (the background)
    let rects: Vec<&xml::Element> = root.children.iter().filter(|c| c.name == "rect").skip(1).collect();
    let images: Vec<&xml::Element> = root.children.iter().filter(|c| c.name == "image").collect();
    if rects.len() != 1 {
        return Err(format!("{} frame <rect> elements after the background, expected 1", rects.len()));
    }
    if images.len() != 1 {
        return Err(format!("{} <image> elements, expected 1", images.len()));
    }
    let (r, i) = (rects[0], images[0]);
    Ok(Geometry { fx: num(r, "x")?, fy: num(r, "y")?, fside: num(r, "width")?, fh: num(r, "height")?, ix: num(i, "x")?, iy: num(i, "y")?, iw: num(i, "width")?, ih: num(i, "height")? })
}

#[derive(Debug, Clone)]
pub struct FrameCase {
    pub v: usize,
    pub frame: usize,
    pub margin: usize,
    pub size: Option<f64>,
    pub gap: Option<f64>,
    pub pos: Option<(f64, f64)>,
}

impl FrameCase {
    pub fn to_json(&self) -> Value {
        json!({"kind": "frame", "version": self.v, "frame_shape": self.frame, "margin": self.margin, "image_size": self.size, "image_gap": self.gap, "image_position": self.pos.map(|p| vec![p.0, p.1])})
    }
    pub fn from_json(v: &Value) -> Option<Self> {
        Some(FrameCase {
            v: v.get("version")?.as_u64()? as usize,
            frame: v.get("frame_shape")?.as_u64()? as usize,
            margin: v.get("margin")?.as_u64()? as usize,
            size: v.get("image_size")?.as_f64(),
            gap: v.get("image_gap")?.as_f64(),
            pos: v.get("image_position")?.as_array().map(|a| (a[0].as_f64().unwrap(), a[1].as_f64().unwrap())),
        })
    }
}

/// the image string of a case: a short file name, a string with XML-special characters, or a data URI of 6 KB (what an
/// embedded logo really is), in turn: the frame and the image geometry must not depend on it
fn image_string(c: &FrameCase) -> String {
    match (c.v + c.margin + c.frame) % 3 {
        0 => format!("data:image/png;base64,{}", "iVBORw0KGgoAAAANSUhEUgAA".repeat(256)),
        1 => "logo.png".to_string(),
        _ => "l.png?a=1&b=<2>\"'".to_string(),
    }
}

pub fn check_case(c: &FrameCase, q: &QRCode) -> (Vec<(String, String)>, Option<Geometry>) {
    let mut out = vec![];
    let n = q.size;
    // the module shape varies too (none, each of the six, and rounded squares under squares): the frame does not depend on it
    let layers: Vec<(usize, Option<[u8; 4]>)> = match (c.v + 2 * c.frame + c.margin) % 8 {
        6 => vec![],
        7 => vec![(2, None), (0, None)],
        s => vec![(s, None)],
    };
    let model = SvgModel { layers, margin: c.margin, image: Some(image_string(c)), frame: c.frame, image_size: c.size, image_gap: c.gap, image_position: c.pos, ..SvgModel::default() };
    let doc = match subject::guarded(|| model.to_builder().to_str(q)) {
        Ok(d) => d,
        Err(m) => return (vec![("panic".into(), format!("to_str panicked: {}", m))], None),
    };
    let g = match geometry(&doc) {
        Ok(g) => g,
        Err(e) => return (vec![("frame-elements".into(), e)], None),
    };
    let _ = FRAMES;
    // the same final options reached in the opposite setter order, and on a builder that has already rendered
    // this symbol with another margin: the document must be the same (the frame is a function of the final options)
    match subject::guarded(|| {
        let rev = model.to_builder_rev().to_str(q);
        let mut used = SvgModel { margin: c.margin + 3, ..model.clone() }.to_builder();
        let _ = used.to_str(q);
        used.margin(c.margin);
        (rev, used.to_str(q))
    }) {
        Ok((rev, used)) => {
            if rev != doc {
                out.push(("frame-depends-on-setter-order".into(), "the document differs when the same final options are set in the opposite order".to_string()));
            }
            if used != doc {
                out.push(("frame-differs-on-reused-builder".into(), "the document differs on a builder that rendered the same symbol with another margin before".to_string()));
            }
        }
        Err(m) => out.push(("panic".into(), format!("to_str panicked (reverse setter order / reused builder): {}", m))),
    }
    let m = c.margin as f64;
    let nn = n as f64;
    if (g.fside - g.fh).abs() > 1e-9 {
        out.push(("frame-not-square".into(), format!("frame is {} x {}", g.fside, g.fh)));
    }
    if (g.iw - g.ih).abs() > 1e-9 {
        out.push(("image-not-square".into(), format!("image is {} x {}", g.iw, g.ih)));
    }
    // image centred in frame and no larger than it
    let dcx = (g.ix + g.iw / 2.0) - (g.fx + g.fside / 2.0);
    let dcy = (g.iy + g.ih / 2.0) - (g.fy + g.fside / 2.0);
    if dcx.abs() > 2.0 * TOL || dcy.abs() > 2.0 * TOL {
        out.push(("image-not-centred-in-frame".into(), format!("image centre is off the frame centre by ({:.3}, {:.3})", dcx, dcy)));
    }
    let is_default = c.size.is_none() && c.gap.is_none() && c.pos.is_none();
    if is_default {
        if g.iw > g.fside + TOL {
            out.push(("image-larger-than-frame".into(), format!("image side {} exceeds frame side {}", g.iw, g.fside)));
        }
        if g.iw <= 0.0 {
            out.push(("image-empty".into(), format!("image side {}", g.iw)));
        }
        // centred on the symbol
        let cx = g.fx + g.fside / 2.0;
        let cy = g.fy + g.fside / 2.0;
        if (cx - (m + nn / 2.0)).abs() > 1e-9 || (cy - (m + nn / 2.0)).abs() > 1e-9 {
            out.push(("frame-not-centred".into(), format!("frame centre ({}, {}) is not the symbol centre {}", cx, cy, m + nn / 2.0)));
        }
        // edges on module boundaries
        for (name, e) in [("left", g.fx), ("right", g.fx + g.fside), ("top", g.fy), ("bottom", g.fy + g.fside)] {
            if (e - e.round()).abs() > 1e-9 {
                out.push(("frame-not-module-aligned".into(), format!("{} edge of the frame at {} is not on a module boundary", name, e)));
                break;
            }
        }
        if !(g.fside < 0.4 * nn) {
            out.push(("frame-too-large".into(), format!("frame side {} is not below 40% of the symbol side {}", g.fside, n)));
        }
        // clear of the finder patterns (with separators: boxes [0,8) at three corners), in symbol coordinates
        let (l, t, r_, b) = (g.fx - m, g.fy - m, g.fx - m + g.fside, g.fy - m + g.fside);
        let overlaps = |x0: f64, y0: f64, x1: f64, y1: f64| l < x1 && r_ > x0 && t < y1 && b > y0;
        if overlaps(0.0, 0.0, 8.0, 8.0) || overlaps(nn - 8.0, 0.0, nn, 8.0) || overlaps(0.0, nn - 8.0, 8.0, nn) {
            out.push(("frame-overlaps-finder".into(), format!("frame [{}, {}] x [{}, {}] (symbol coordinates) overlaps a finder pattern or its separator", l, r_, t, b)));
        }
        if l < 0.0 || t < 0.0 || r_ > nn || b > nn {
            out.push(("frame-outside-symbol".into(), format!("frame [{}, {}] x [{}, {}] leaves the symbol", l, r_, t, b)));
        }
    } else {
        if let Some(s) = c.size {
            if (g.iw - s).abs() > TOL {
                out.push(("image-size-not-honoured".into(), format!("requested image size {} but the image is {}", s, g.iw)));
            }
        }
        if c.gap.is_none() && g.iw > g.fside + TOL {
            // no gap requested: the default gap is not negative, the image lies inside its frame
            out.push(("image-larger-than-frame".into(), format!("image side {} exceeds frame side {} (no gap was requested)", g.iw, g.fside)));
        }
        if let Some(gap) = c.gap {
            let a = g.iw + 2.0 * gap - g.fside; // alignment adjustment
            if a < -TOL || a > 1.0 + TOL {
                out.push(("gap-not-honoured".into(), format!("requested gap {}: frame side {} vs image {} (frame should be image + 2*gap less at most one module in total)", gap, g.fside, g.iw)));
            }
        }
        let (wx, wy) = match c.pos {
            Some(p) => p,
            None => (m + nn / 2.0, m + nn / 2.0),
        };
        let cx = g.fx + g.fside / 2.0;
        let cy = g.fy + g.fside / 2.0;
        if (cx - wx).abs() > 1e-6 || (cy - wy).abs() > 1e-6 {
            out.push((if c.pos.is_some() { "position-not-honoured" } else { "frame-not-centred" }.into(), format!("frame centre ({}, {}), expected ({}, {})", cx, cy, wx, wy)));
        }
    }
    (out, Some(g))
}

fn symbol(v: usize) -> Option<Box<QRCode>> {
    match subject::build(b"C18", &Opts { mode: None, ecl: Some(0), version: Some(v as u8), mask: Some(0), order: 0 }) {
        Outcome::Ok(q) => Some(q),
        _ => None,
    }
}

/// renders through ImageBuilder (image = a 1x1 PNG data URI, frame colour pure red, white background, 8 px per module)
/// and compares the bounding box of the red pixels with the frame of the SVG for the same options
pub fn check_image_builder(c: &FrameCase, q: &QRCode) -> Vec<(String, String)> {
    use fast_qr::convert::image::ImageBuilder;
    const PNG1: &str = "data:image/png;base64,iVBORw0KGgoAAAANSUhEUgAAAAEAAAABCAQAAAC1HAwCAAAAC0lEQVR42mNkYAAAAAYAAjCB0C8AAAAASUVORK5CYII=";
    let n = q.size;
    let s = n + 2 * c.margin;
    let scale = 8usize;
    let model = SvgModel { margin: c.margin, image: Some(PNG1.into()), frame: c.frame, image_size: c.size, image_gap: c.gap, image_position: c.pos, image_background: [255, 0, 0, 255], module_color: [0, 0, 0, 255], ..SvgModel::default() };
    let g = match subject::guarded(|| model.to_builder().to_str(q)).map_err(|m| m).and_then(|d| geometry(&d)) {
        Ok(g) => g,
        Err(e) => return vec![("frame-elements".into(), e)],
    };
    let r = subject::guarded(|| {
        let mut b = ImageBuilder::default();
        b.margin(c.margin).image(PNG1.to_string()).image_background_color([255, 0, 0, 255]).image_background_shape(FRAMES[c.frame]);
        if let Some(x) = c.size {
            b.image_size(x);
        }
        if let Some(x) = c.gap {
            b.image_gap(x);
        }
        if let Some((x, y)) = c.pos {
            b.image_position(x, y);
        }
        b.fit_width((s * scale) as u32);
        let pm = b.to_pixmap(q);
        let (w, h) = (pm.width() as usize, pm.height() as usize);
        let (mut x0, mut y0, mut x1, mut y1) = (usize::MAX, usize::MAX, 0usize, 0usize);
        for (i, p) in pm.pixels().iter().enumerate() {
            let d = p.demultiply();
            if d.red() > 200 && d.green() < 60 && d.blue() < 60 && d.alpha() > 200 {
                let (x, y) = (i % w, i / w);
                x0 = x0.min(x);
                y0 = y0.min(y);
                x1 = x1.max(x);
                y1 = y1.max(y);
            }
        }
        (w, h, x0, y0, x1, y1)
    });
    let (w, _h, x0, y0, x1, y1) = match r {
        Ok(x) => x,
        Err(m) => return vec![("panic".into(), format!("ImageBuilder::to_pixmap panicked: {}", m))],
    };
    if x0 == usize::MAX {
        return vec![("frame-not-found-in-pixmap".into(), "no pixel of the frame colour in the ImageBuilder rendering".into())];
    }
    let k = w as f64 / s as f64;
    // the part of the frame inside the canvas, in pixels
    let clamp = |v: f64| v.max(0.0).min(s as f64) * k;
    let (ex0, ey0, ex1, ey1) = (clamp(g.fx), clamp(g.fy), clamp(g.fx + g.fside), clamp(g.fy + g.fside));
    let tol = 3.0 + if c.frame == 2 { 2.0 } else { 0.0 };
    let mut out = vec![];
    if (x0 as f64 - ex0).abs() > tol || (y0 as f64 - ey0).abs() > tol || ((x1 + 1) as f64 - ex1).abs() > tol || ((y1 + 1) as f64 - ey1).abs() > tol {
        out.push(("image-builder-frame-differs-from-svg".into(), format!("frame pixels span x {}..{} y {}..{} in the ImageBuilder rendering, the SVG for the same options puts the frame at x {:.0}..{:.0} y {:.0}..{:.0} (pixels, {} px per module)", x0, x1 + 1, y0, y1 + 1, ex0, ex1, ey0, ey1, k)));
    }
    out
}

pub fn replay(case: &Value) -> Result<Vec<(String, String)>, String> {
    let c = FrameCase::from_json(case).ok_or("malformed frame case")?;
    if case.get("via").and_then(|v| v.as_str()) == Some("ImageBuilder") {
        let q = symbol(c.v).ok_or("build failed")?;
        return Ok(check_image_builder(&c, &q).into_iter().map(|(k, w)| (format!("C18/{}", k), w)).collect());
    }
    let q = symbol(c.v).ok_or("build failed")?;
    Ok(check_case(&c, &q).0.into_iter().map(|(k, w)| (format!("C18/{}", k), w)).collect())
}

pub fn run(ctx: &Ctx) -> Collector {
    let col = Collector::new("C18", "exploration");
    col.set_rule("cases = defaults: all 40 versions x 3 frame shapes x margins 0..=16 (2040, exhaustive); overrides: image size in {unset, 1, 1.5, .., 20} x gap in {unset, 0, .25, .5, 1, 2, 3} x position in {unset, (10,10), (12.5,7), (0,0)} x versions {1,2,7,20,40} x margins {0,3,4} x 3 shapes; observation = rect/image attributes parsed from to_str() by the strict XML parser; oracle (defaults): square, centred on margin+n/2, edges integral, side monotone in the version, side < 0.4 n, clear of finder+separator boxes, image centred and no larger; (overrides): image side = requested, frame = image + 2*gap less at most one module, centre = requested position or symbol centre, image centred; non-trivial = a frame was emitted; distinct = distinct (frame, image) geometries");
    col.assume("real-valued overrides are a finite grid, not all reals (the property says 'sampled')");
    let qs: Vec<Option<Box<QRCode>>> = (1..=40).map(symbol).collect();
    // defaults
    let mut cases = vec![];
    for v in 1..=40usize {
        for frame in 0..3usize {
            for margin in 0..=16usize {
                cases.push(FrameCase { v, frame, margin, size: None, gap: None, pos: None });
            }
        }
    }
    let n_def = cases.len();
    let sizes: Vec<Option<f64>> = std::iter::once(None).chain((2..=40).map(|i| Some(i as f64 / 2.0))).collect();
    let gaps = [None, Some(0.0), Some(0.25), Some(0.5), Some(1.0), Some(2.0), Some(3.0)];
    // (positions inside the first module, on an edge and on an axis too: a position is in modules, whatever its size)
    let poss = [None, Some((10.0, 10.0)), Some((12.5, 7.0)), Some((0.0, 0.0)), Some((1.0, 1.0)), Some((0.5, 0.25)), Some((18.5, 0.0)), Some((0.0, 9.0))];
    let vers: Vec<usize> = if ctx.tier.thorough() { vec![1, 2, 3, 6, 7, 14, 20, 27, 39, 40] } else { vec![1, 2, 7, 20, 40] };
    for &v in &vers {
        for frame in 0..3usize {
            for margin in [0usize, 3, 4] {
                for &size in &sizes {
                    for &gap in &gaps {
                        for &pos in &poss {
                            if size.is_none() && gap.is_none() && pos.is_none() {
                                continue;
                            }
                            cases.push(FrameCase { v, frame, margin, size, gap, pos });
                        }
                    }
                }
            }
        }
    }
    // one-decimal overrides (values that are not exactly representable: 8.2, 0.7, ...): formatting and rounding of
    // the emitted numbers must not move the frame; v1 and v5, margin 4, square frame
    let n_grid0 = cases.len();
    {
        let step = if ctx.tier.thorough() { 1 } else { 3 };
        for &v in &[1usize, 5] {
            for s10 in (50..=100).step_by(step) {
                for g10 in 0..=10 {
                    for p10 in (60..=150).step_by(if ctx.tier.thorough() { 1 } else { 7 }) {
                        cases.push(FrameCase { v, frame: (s10 + g10) % 3, margin: 4, size: Some(s10 as f64 / 10.0), gap: Some(g10 as f64 / 10.0), pos: Some((p10 as f64 / 10.0, (p10 + 5) as f64 / 10.0)) });
                    }
                }
            }
        }
    }
    let n_grid = cases.len() - n_grid0;
    let sides = std::sync::Mutex::new(vec![0.0f64; n_def]);
    pool::par_for(cases.len(), |i| {
        let c = &cases[i];
        match &qs[c.v - 1] {
            Some(q) => {
                let (f, g) = check_case(c, q);
                col.eval(g.map(|g| crate::util::fnv(format!("{:?}", g).as_bytes())));
                if i < n_def {
                    if let Some(g) = g {
                        sides.lock().unwrap()[i] = g.fside;
                    }
                }
                for (k, w) in f {
                    col.violation((if i < n_def { 0 } else { 1 }, i as u64), format!("C18/{}", k), format!("v{} frame shape {} margin {} size {:?} gap {:?} position {:?}: {}", c.v, c.frame, c.margin, c.size, c.gap, c.pos, w), c.to_json());
                }
            }
            None => {
                col.eval(None);
                col.skipped_panic();
            }
        }
    });
    // monotonicity of the default frame side in the version
    let sides = sides.into_inner().unwrap();
    for i in 0..n_def {
        let c = &cases[i];
        if c.v < 40 {
            let j = i + 3 * 17; // same frame shape and margin, next version
            if sides[j] < sides[i] && sides[i] > 0.0 && sides[j] > 0.0 {
                col.violation((0, i as u64), "C18/frame-shrinks".into(), format!("default frame side shrinks from {} (v{}) to {} (v{}) for frame shape {} margin {}", sides[i], c.v, sides[j], c.v + 1, c.frame, c.margin), c.to_json());
            }
        }
    }
    col.space(json!({"name": "default placement", "cases": n_def, "what": "all 40 versions x 3 frame shapes x margins 0..=16", "exhaustive": true}));
    // the second implementor of the Builder trait: ImageBuilder forwards the image options to its inner SvgBuilder;
    // the frame is located in the rendered pixels (frame colour on a white background, 8 pixels per module) and
    // compared with the geometry of the SVG for the same options
    let t_img = std::time::Instant::now();
    let icases: Vec<FrameCase> = {
        let mut v = vec![];
        for frame in [0usize, 2] {
            for (size, gap, pos) in [(None, None, None), (Some(5.0), Some(1.0), Some((9.5, 19.5))), (Some(4.0), None, Some((18.0, 8.0))), (None, Some(0.5), Some((8.0, 8.0))), (Some(6.0), Some(0.0), None), (Some(3.0), Some(2.0), Some((20.5, 10.0)))] {
                for ver in [1usize, 3] {
                    v.push(FrameCase { v: ver, frame, margin: 4, size, gap, pos });
                }
            }
        }
        v
    };
    pool::par_for(icases.len(), |i| {
        let c = &icases[i];
        if let Some(q) = &qs[c.v - 1] {
            for (k, w) in check_image_builder(c, q) {
                col.violation((2, i as u64), format!("C18/{}", k), format!("v{} frame shape {} size {:?} gap {:?} position {:?}: {}", c.v, c.frame, c.size, c.gap, c.pos, w), { let mut j = c.to_json(); j["via"] = json!("ImageBuilder"); j });
            }
            col.eval(Some(crate::util::fnv(format!("img{:?}", c).as_bytes())));
        }
    });
    col.space(json!({"name": "frame through ImageBuilder", "cases": icases.len(), "what": "6 option sets (default, and explicit size/gap/position with x != y) x 2 frame shapes x versions {1,3}: the frame located in the pixels of ImageBuilder::to_pixmap agrees with the SVG geometry", "exhaustive": true, "wall_s": (t_img.elapsed().as_secs_f64() * 100.0).round() / 100.0}));
    col.space(json!({"name": "one-decimal overrides", "cases": n_grid, "what": "sizes 5.0..10.0 x gaps 0.0..1.0 x positions (p, p+0.5) for p in 6.0..15.0, steps of 0.1 (quick: every third size, every seventh position), versions {1,5}", "exhaustive": true}));
    col.space(json!({"name": "overrides", "cases": n_grid0 - n_def, "what": format!("sizes {{unset,1,1.5,..,20}} x gaps {{unset,0,.25,.5,1,2,3}} x positions {{unset,(10,10),(12.5,7),(0,0),(1,1),(0.5,0.25),(18.5,0),(0,9)}} x versions {:?} x margins {{0,3,4}} x 3 frame shapes", vers), "exhaustive": true}));
    col.sample(cases[0].to_json());
    col.sample(cases[n_def - 1].to_json());
    col.sample(cases[cases.len() - 1].to_json());
    col
}
