pub mod sched;
