//! E3: a controlled scheduler over real OS threads. Threads run only when the scheduler says so and
//! hand control back at the cfg-guarded scheduling points inside fast_qr (hook H3). All
//! interleavings with at most `bound` preemptions are enumerated by depth-first search over choice
//! prefixes (iterative context bounding). Every schedule is a replayable list of choices.

use std::sync::{Arc, Condvar, Mutex};

/// one decision of an execution
#[derive(Clone, Debug, PartialEq)]
pub struct Decision {
    /// index chosen in the canonical enabled list (running thread first if still enabled, then ascending ids)
    pub choice: usize,
    pub enabled: usize,
    /// the running thread was still enabled (so choice != 0 is a preemption)
    pub running_enabled: bool,
    pub thread_chosen: usize,
    pub at: &'static str,
}

struct State {
    n: usize,
    current: Option<usize>,
    done: Vec<bool>,
    started: Vec<bool>,
    prefix: Vec<usize>,
    decisions: Vec<Decision>,
    error: Option<String>,
    finished: usize,
}

pub struct Sched {
    st: Mutex<State>,
    cv: Condvar,
    filter: fn(&str) -> bool,
    /// harness-owned racy counter (vacuity guard): read at one point, written back +1 at the next
    pub canary: std::sync::atomic::AtomicU64,
    /// per-execution object shared by the thread bodies (created by the first thread that needs it, so that
    /// nothing of the subject survives from one execution to the next)
    pub shared: Mutex<Option<Arc<dyn std::any::Any + Send + Sync>>>,
}

impl Sched {
    pub fn new(n: usize, prefix: Vec<usize>, filter: fn(&str) -> bool) -> Arc<Sched> {
        Arc::new(Sched {
            st: Mutex::new(State { n, current: None, done: vec![false; n], started: vec![false; n], prefix, decisions: vec![], error: None, finished: 0 }),
            cv: Condvar::new(),
            filter,
            canary: std::sync::atomic::AtomicU64::new(0),
            shared: Mutex::new(None),
        })
    }

    /// canonical enabled list
    fn enabled(st: &State, running: Option<usize>) -> Vec<usize> {
        let mut v = vec![];
        if let Some(r) = running {
            if !st.done[r] {
                v.push(r);
            }
        }
        for t in 0..st.n {
            if !st.done[t] && Some(t) != running {
                v.push(t);
            }
        }
        v
    }

    fn decide(st: &mut State, running: Option<usize>, at: &'static str) {
        let en = Self::enabled(st, running);
        if en.is_empty() {
            st.current = None;
            return;
        }
        let i = st.decisions.len();
        let choice = if i < st.prefix.len() { st.prefix[i] } else { 0 };
        if choice >= en.len() {
            st.error = Some(format!("schedule prefix diverged: decision {} wants choice {} of {} enabled threads", i, choice, en.len()));
            st.current = Some(en[0]);
            st.decisions.push(Decision { choice: 0, enabled: en.len(), running_enabled: false, thread_chosen: en[0], at });
            return;
        }
        let running_enabled = running.map_or(false, |r| !st.done[r]);
        st.decisions.push(Decision { choice, enabled: en.len(), running_enabled, thread_chosen: en[choice], at });
        st.current = Some(en[choice]);
    }

    /// called by thread `tid` before its first instruction
    pub fn start(&self, tid: usize) {
        let mut st = self.st.lock().unwrap();
        st.started[tid] = true;
        if st.started.iter().all(|&s| s) && st.current.is_none() && st.decisions.is_empty() {
            Self::decide(&mut st, None, "start");
            self.cv.notify_all();
        }
        while st.current != Some(tid) {
            st = self.cv.wait(st).unwrap();
        }
    }

    /// a scheduling point reached by the running thread
    pub fn point(&self, tid: usize, id: &'static str) {
        if !(self.filter)(id) {
            return;
        }
        let mut st = self.st.lock().unwrap();
        if st.current != Some(tid) {
            st.error = Some(format!("thread {} reached point {} while thread {:?} was scheduled", tid, id, st.current));
            return;
        }
        Self::decide(&mut st, Some(tid), id);
        if st.current != Some(tid) {
            self.cv.notify_all();
            while st.current != Some(tid) {
                st = self.cv.wait(st).unwrap();
            }
        }
    }

    /// called by thread `tid` after its last instruction (also after a caught panic)
    pub fn finish(&self, tid: usize) {
        let mut st = self.st.lock().unwrap();
        st.done[tid] = true;
        st.finished += 1;
        Self::decide(&mut st, Some(tid), "exit");
        self.cv.notify_all();
    }

    pub fn take(&self) -> (Vec<Decision>, Option<String>) {
        let st = self.st.lock().unwrap();
        (st.decisions.clone(), st.error.clone())
    }
}

pub fn all_points(_: &str) -> bool {
    true
}

pub fn coarse_points(id: &str) -> bool {
    matches!(
        id,
        "new.mode" | "new.version" | "cm.encoded" | "cm.structured" | "cm.binstring" | "pom.blank" | "pom.placed" | "pom.selected" | "pom.format" | "pom.done" | "enc.payload" | "enc.fill" | "st.interleave" | "svg.head" | "svg.path" | "img.tree" | "img.render" | "canary"
    )
}

pub struct Execution<T> {
    pub canary: u64,
    pub results: Vec<Option<T>>,
    pub decisions: Vec<Decision>,
    pub error: Option<String>,
}

/// Runs one execution of `bodies` (one closure per thread) under the schedule `prefix`
pub fn run_once<T: Send + 'static>(bodies: &[Arc<dyn Fn(usize, &Sched) -> T + Send + Sync>], prefix: &[usize], filter: fn(&str) -> bool) -> Execution<T> {
    let n = bodies.len();
    let sched = Sched::new(n, prefix.to_vec(), filter);
    let mut handles = vec![];
    for (tid, body) in bodies.iter().enumerate() {
        let sched = sched.clone();
        let body = body.clone();
        let h = std::thread::Builder::new()
            .name(format!("fqv-sched-{}", tid))
            .stack_size(16 << 20)
            .spawn(move || {
                let s2 = sched.clone();
                let mut stash: Option<u64> = None;
                fast_qr::verif::set_point_callback(Some(Box::new(move |id| {
                    s2.point(tid, id);
                    if (s2.filter)(id) {
                        use std::sync::atomic::Ordering::SeqCst;
                        match stash.take() {
                            Some(v) => s2.canary.store(v + 1, SeqCst),
                            None => stash = Some(s2.canary.load(SeqCst)),
                        }
                    }
                })));
                sched.start(tid);
                let r = std::panic::catch_unwind(std::panic::AssertUnwindSafe(|| body(tid, &sched)));
                fast_qr::verif::set_point_callback(None);
                sched.finish(tid);
                r.ok()
            })
            .expect("spawn");
        handles.push(h);
    }
    let results: Vec<Option<T>> = handles.into_iter().map(|h| h.join().ok().flatten()).collect();
    let (decisions, error) = sched.take();
    let canary = sched.canary.load(std::sync::atomic::Ordering::SeqCst);
    Execution { canary, results, decisions, error }
}

pub struct Exploration {
    pub schedules: u64,
    pub max_decisions: usize,
    pub bound_completed: usize,
    pub capped: bool,
}

/// Depth-first exploration of all schedules with at most `bound` preemptions.
/// `visit(prefix_used, execution)` is called for every complete execution.
pub fn explore<T: Send + 'static>(
    bodies: &[Arc<dyn Fn(usize, &Sched) -> T + Send + Sync>],
    bound: usize,
    filter: fn(&str) -> bool,
    max_schedules: u64,
    visit: &mut dyn FnMut(&[usize], &Execution<T>),
) -> Exploration {
    let mut stack: Vec<Vec<usize>> = vec![vec![]];
    let mut out = Exploration { schedules: 0, max_decisions: 0, bound_completed: bound, capped: false };
    while let Some(prefix) = stack.pop() {
        if out.schedules >= max_schedules {
            out.capped = true;
            break;
        }
        let x = run_once(bodies, &prefix, filter);
        out.schedules += 1;
        out.max_decisions = out.max_decisions.max(x.decisions.len());
        let choices: Vec<usize> = x.decisions.iter().map(|d| d.choice).collect();
        visit(&choices, &x);
        if x.error.is_some() {
            continue;
        }
        // preemptions used before decision i
        let mut used = 0usize;
        let mut alts: Vec<Vec<usize>> = vec![];
        for (i, d) in x.decisions.iter().enumerate() {
            if i >= prefix.len() {
                for alt in 1..d.enabled {
                    let cost = used + if d.running_enabled { 1 } else { 0 };
                    if cost <= bound {
                        let mut p = choices[..i].to_vec();
                        p.push(alt);
                        alts.push(p);
                    }
                }
            }
            if d.running_enabled && d.choice != 0 {
                used += 1;
            }
        }
        // push in reverse so that the earliest deviation is explored first
        for p in alts.into_iter().rev() {
            stack.push(p);
        }
    }
    out
}
